//! Thread dimension: real caller threads running concurrently. Natively the interleaving would be
//! decided by the OS (not replayable), so this scenario is only *registered* under Miri, whose
//! scheduler and RNG are a pure function of `-Zmiri-seed`: one Miri seed = one exactly repeatable
//! interleaving, including the race on the `lazy_static` initialisation of the shared lexical
//! format instances and std's real `RandomState` keys (un-hooked build).
//!
//!   narsim threads --seed S [--threads 3] [--ops 4]
//!
//! Each thread gets a queue of operations (stateless parses through the shared statics, small
//! `parse_multi` sessions, and hash / equality observations on terms built by *another* thread).
//! After joining, every observation is recomputed sequentially on the main thread and must agree.

use crate::describe::*;
use crate::formats::*;
use crate::hashers::*;
use crate::prng::Choices;
use crate::realise::{realise, RStats, RealiseParams};
use crate::refmodel::*;
use crate::sim_sessions::{eval_entry, Entry, ENTRY_NAMES};
use narsese::enum_narsese::Term;
use std::sync::Arc;

#[derive(Clone, Debug)]
enum TOp {
    Call(Entry, usize, String),
    Batch(usize, Vec<String>),
    /// hash + compare shared term `i` with shared term `j`
    Observe(usize, usize),
}

fn inputs_for(f: usize) -> Vec<&'static str> {
    match f {
        0 => vec!["<A --> B>.", "$0.5$ <{A, B} <-> {B, A}>. :|: %1.0;0.9%", "<A --> B>. %2%", "(&&, A, B", "$0.5$", "%0.9%", "(*, A, +1, _x)", "<(&|, C, D) <|> (&|, D, C)>?"],
        1 => vec![r"\left<A \rightarrow{} B\right>.", r"\left(\wedge{}\; A\; B\right)", r"\$0.5\$ \left<A \rightarrow{} B\right>. \langle{}1,0.9\rangle{}", r"\left<A \rightarrow{} B\right>. \langle{}2\rangle{}", r"\$0.5\$"],
        _ => vec!["「A是B」。", "预0.5算「『A，B』似『B，A』」。 真1、0.9值", "「A是B」。 真2值", "（与，A，B", "预0.5算", "「我是谁」"],
    }
}

fn batch_outcomes(f: usize, inputs: &[String]) -> Vec<String> {
    let refs: Vec<&str> = inputs.iter().map(|s| s.as_str()).collect();
    match guarded(|| ENUM_FORMATS[f].parse_multi(refs)) {
        None => vec!["PANIC".into()],
        Some(rs) => rs
            .into_iter()
            .map(|r| match r {
                Ok(v) => format!("2|{:?}", abstract_value(&v)),
                Err(_) => "0|".into(),
            })
            .collect(),
    }
}

fn observe(shared: &[Term], i: usize, j: usize) -> String {
    let (a, b) = (&shared[i], &shared[j]);
    let eq = a == b;
    let (ha, hb) = (hash3(a, 77), hash3(b, 77));
    // a table filled here, on this thread
    let mut set: std::collections::HashSet<Term> = std::collections::HashSet::new();
    set.insert(a.clone());
    let found = set.contains(b);
    format!("eq={eq} ha={ha:?} hb={hb:?} found={found}")
}

pub fn cmd_threads(args: &[String]) -> u8 {
    let mut seed = 1u64;
    let mut n_threads = 3usize;
    let mut n_ops = 4usize;
    let mut mix = "all".to_string();
    let mut i = 0;
    while i + 1 < args.len() {
        match args[i].as_str() {
            "--seed" => {
                seed = if args[i + 1] == "rng" {
                    // derived from the process's source of hasher randomness: under Miri a pure
                    // function of -Zmiri-seed, so one Miri seed decides workload AND schedule
                    use std::hash::BuildHasher;
                    std::collections::hash_map::RandomState::new().hash_one(0x5eed_u64)
                } else {
                    args[i + 1].parse().unwrap_or(1)
                }
            }
            "--mix" => mix = args[i + 1].clone(),
            "--threads" => n_threads = args[i + 1].parse().unwrap_or(3),
            "--ops" => n_ops = args[i + 1].parse().unwrap_or(4),
            _ => {}
        }
        i += 2;
    }
    let mut ch = Choices::generate(crate::prng::run_seed(seed, 99, 0));
    // shared terms: twins of two small descriptions, to be observed by other threads
    let gp = GenParams { max_depth: 2, max_fan: 3, n_names: 3, unordered_bias: 3, exotic: false, stop_den: 3, cjk_names: false, many_names: false, domain_names: false };
    let rp = RealiseParams { reorder: true, duplicates: true, capacity: true, wrap: 0, text_routes: false };
    let mut rs = RStats::default();
    let d = gen_desc(&mut ch, &gp, 0, false);
    let mut shared: Vec<Term> = vec![];
    let need_terms = mix == "terms" || mix == "all";
    for _ in 0..(if need_terms { 2 } else { 0 }) {
        shared.push(realise(&d, &mut ch, &mut rs, &rp));
    }
    // one more twin is built by a spawned thread (its RandomState keys come from that thread)
    if need_terms {
        let d2 = d.clone();
        let mut ch2 = Choices::generate(crate::prng::run_seed(seed, 99, 1));
        let built_elsewhere = std::thread::spawn(move || {
            let mut rs = RStats::default();
            realise(&d2, &mut ch2, &mut rs, &rp)
        })
        .join()
        .expect("builder thread");
        shared.push(built_elsewhere);
        if let Some((near, _, _)) = near_miss(&d, &mut ch) {
            shared.push(realise(&near, &mut ch, &mut rs, &rp));
        }
    } else {
        shared.push(Term::new_word("unused"));
    }
    let shared = Arc::new(shared);
    let expected_same: Vec<Vec<bool>> = shared.iter().map(|a| shared.iter().map(|b| abstract_term(a) == abstract_term(b)).collect()).collect();

    // workload
    let mut queues: Vec<Vec<TOp>> = vec![];
    for _ in 0..n_threads {
        let mut q = vec![];
        for _ in 0..n_ops {
            let f = if mix == "sessions" { 0 } else { ch.choose(3) as usize };
            let ins = inputs_for(f);
            let pick = |ch: &mut Choices| ins[ch.choose(ins.len() as u32) as usize].to_string();
            let weights: [u32; 4] = match mix.as_str() {
                "terms" => [0, 0, 0, 100],
                "parse" => [40, 30, 30, 0],
                "sessions" => [0, 10, 90, 0],
                _ => [30, 25, 20, 25],
            };
            if mix == "lexdeep" {
                // every thread is deep inside the lexical parser at the same time: a well-formed
                // set nested ~48 levels (run with --threads 6: the depths sum to ~290)
                let depth = 46usize;
                let (open, close, sep) = match f {
                    0 => ("{", "}", ","),
                    1 => (r"\left\{", r"\right\}", r"\;"),
                    _ => ("『", "』", "，"),
                };
                let inner: Vec<String> = (0..8).map(|i| format!("a{i}")).collect();
                let text = format!("{}{}{}", open.repeat(depth), inner.join(sep), close.repeat(depth));
                q.push(TOp::Call(Entry::Lex, f, text));
                continue;
            }
            match ch.weighted(&weights) {
                0 => q.push(TOp::Call([Entry::Lex, Entry::LexTerm, Entry::LexFold][ch.choose(3) as usize].clone(), f, pick(&mut ch))),
                1 => q.push(TOp::Call(Entry::Enum, f, pick(&mut ch))),
                2 => {
                    let n = if mix == "sessions" { ch.range(3, 6) } else { ch.range(2, 3) };
                    let mut v: Vec<String> = vec![];
                    for _ in 0..n {
                        // adjacent duplicates are common in line-oriented input
                        if !v.is_empty() && ch.chance(1, 3) {
                            v.push(v[v.len() - 1].clone());
                        } else {
                            v.push(pick(&mut ch));
                        }
                    }
                    q.push(TOp::Batch(f, v));
                }
                _ => q.push(TOp::Observe(ch.choose(shared.len() as u32) as usize, ch.choose(shared.len() as u32) as usize)),
            }
        }
        queues.push(q);
    }
    println!("narsim threads: seed={seed} mix={mix} threads={n_threads} ops/thread={n_ops} shared terms={} (hooked_build={})", shared.len(), crate::sim_terms::HOOKED);

    // concurrent execution
    let handles: Vec<_> = queues
        .iter()
        .cloned()
        .map(|q| {
            let shared = Arc::clone(&shared);
            std::thread::spawn(move || {
                q.iter()
                    .map(|op| match op {
                        TOp::Call(e, f, s) => vec![eval_entry(e, *f, s).wire()],
                        TOp::Batch(f, ins) => batch_outcomes(*f, ins),
                        TOp::Observe(i, j) => vec![observe(&shared, *i, *j)],
                    })
                    .collect::<Vec<_>>()
            })
        })
        .collect();
    let concurrent: Vec<Vec<Vec<String>>> = handles.into_iter().map(|h| h.join().expect("client thread")).collect();

    // sequential recomputation + oracle
    let mut bad = 0;
    let mut memo: std::collections::BTreeMap<(usize, usize, String), String> = std::collections::BTreeMap::new();
    for (t, q) in queues.iter().enumerate() {
        for (k, op) in q.iter().enumerate() {
            let again = match op {
                TOp::Call(e, f, s) => vec![memo.entry((e.idx(), *f, s.clone())).or_insert_with(|| eval_entry(e, *f, s).wire()).clone()],
                TOp::Batch(f, ins) => batch_outcomes(*f, ins),
                TOp::Observe(i, j) => vec![observe(&shared, *i, *j)],
            };
            if again != concurrent[t][k] {
                bad += 1;
                let what = match op {
                    TOp::Call(e, f, s) => format!("C08 {} [{}] {:?}", ENTRY_NAMES[e.idx()], FORMAT_NAMES[*f], s),
                    TOp::Batch(f, ins) => format!("C08 parse_multi [{}] {:?}", FORMAT_NAMES[*f], ins),
                    TOp::Observe(i, j) => {
                        // which part differs: the == answer (C06) or the hashes / table lookup (C07)
                        let eq_part = |s: &str| s.split(' ').next().unwrap_or("").to_string();
                        let (a, b) = (&again[0], &concurrent[t][k][0]);
                        let p = if eq_part(a) != eq_part(b) { "C06 equality" } else { "C07 hash / table lookup" };
                        format!("{p} of shared terms {i},{j} depends on the thread")
                    }
                };
                println!("THREAD-DISAGREE thread={t} op={k} {what}: concurrently {:?}, sequentially {:?}", concurrent[t][k], again);
            }
            // batch positions vs alone; observations vs the reference model
            match op {
                TOp::Batch(f, ins) => {
                    for (p, s) in ins.iter().enumerate() {
                        let alone = eval_entry(&Entry::Enum, *f, s);
                        if alone.kind != 1 && concurrent[t][k].get(p) != Some(&alone.wire()) {
                            bad += 1;
                            println!("THREAD-DISAGREE thread={t} op={k} C08 parse_multi [{}] position {p} {:?}: {:?} but alone {:?}", FORMAT_NAMES[*f], s, concurrent[t][k].get(p), alone.wire());
                        }
                    }
                }
                TOp::Observe(i, j) => {
                    let o = &concurrent[t][k][0];
                    let same = expected_same[*i][*j];
                    if o.starts_with("eq=true") != same {
                        bad += 1;
                        println!("THREAD-DISAGREE thread={t} op={k} C06: shared terms {i},{j} denote {} term but {o}", if same { "the same" } else { "a different" });
                    }
                    if same {
                        let (ha, hb) = (hash3(&shared[*i], 77), hash3(&shared[*j], 77));
                        if ha != hb || !o.ends_with("found=true") {
                            bad += 1;
                            println!("THREAD-DISAGREE thread={t} op={k} C07: shared terms {i},{j} are the same term but {o}");
                        }
                    }
                }
                _ => {}
            }
        }
    }
    if bad > 0 {
        println!("narsim threads: {bad} disagreement(s)");
        1
    } else {
        println!("narsim threads: ok ({} operations on {n_threads} threads agree with their sequential recomputation)", n_threads * n_ops);
        0
    }
}
