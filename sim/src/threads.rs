//! Thread dimension (run under Miri's seeded scheduler; see DESIGN.md §3.3): filled in below.

pub fn cmd_threads(_args: &[String]) -> u8 {
    eprintln!("narsim threads: not built yet");
    2
}
