//! C08: long-lived parser sessions fed faulty request sequences by several interleaved clients.
//!
//! System under simulation: the real enum parser (`parse`, `parse_chars`, `parse_multi`, the
//! stand-alone truth/budget/stamp/punctuation entry points), the real lexical parser through the
//! shared static instances and through freshly created instances, and the real fold.
//!
//! Simulated world: C clients, each with a queue of session operations; a seeded scheduler picks
//! who issues the next operation. A `Batch` is one `parse_multi` call — the long-lived parser
//! state — whose input iterator is owned by the simulator: before handing over the next request
//! the scheduler may run operations of other clients (including another, nested batch), so other
//! sessions genuinely interleave with one in progress, in one thread, under the seed.
//!
//! Faults are what a parser session can meet: truncated, corrupted, fragmentary, out-of-range,
//! duplicated, repeated and re-ordered requests.
//!
//! Oracle: every observation of (entry point, format, input) anywhere in the run — any client,
//! any position of any batch, the simulator's own "alone" evaluations — must have the same
//! outcome (`~`: both Err, or both Ok with equal abstract value; error texts are not compared).

use crate::describe::*;
use crate::formats::*;
use crate::prng::{Choices, Digest};
use crate::realise::{realise, RStats, RealiseParams};
use crate::refmodel::*;
use crate::report::*;
use narsese::conversion::inter_type::lexical_fold::TryFoldInto;
use narsese::enum_narsese::{Budget, Narsese, Punctuation, Stamp, Truth};
use std::cell::RefCell;
use std::collections::{BTreeMap, VecDeque};

// ---------------------------------------------------------------------------------------------
// outcomes

#[derive(Clone, Debug, PartialEq, Eq)]
pub struct Outcome {
    /// 0 Err, 1 Panic, 2 Ok
    pub kind: u8,
    /// canonical rendering of the value (Debug of the abstract value); empty unless Ok
    pub canon: String,
    /// short human rendering
    pub show: String,
}
impl Outcome {
    pub fn err() -> Self {
        Outcome { kind: 0, canon: String::new(), show: "Err".into() }
    }
    pub fn panic() -> Self {
        Outcome { kind: 1, canon: String::new(), show: "PANIC".into() }
    }
    pub fn ok(canon: String, show: String) -> Self {
        Outcome { kind: 2, canon, show }
    }
    /// the relation `~` of the property statement
    pub fn agrees(&self, o: &Outcome) -> bool {
        self.kind == o.kind && self.canon == o.canon
    }
    pub fn wire(&self) -> String {
        format!("{}|{}", self.kind, self.canon)
    }
}

fn enum_outcome<E>(r: Option<Result<Narsese, E>>) -> Outcome {
    match r {
        None => Outcome::panic(),
        Some(Err(_)) => Outcome::err(),
        Some(Ok(v)) => {
            let a = abstract_value(&v);
            Outcome::ok(format!("{a:?}"), show_rvalue(&a))
        }
    }
}
fn debug_outcome<T: std::fmt::Debug, E>(r: Option<Result<T, E>>) -> Outcome {
    match r {
        None => Outcome::panic(),
        Some(Err(_)) => Outcome::err(),
        Some(Ok(v)) => {
            let s = format!("{v:?}");
            let show = if s.chars().count() > 160 {
                let cut: String = s.chars().take(160).collect();
                format!("{cut}…")
            } else {
                s.clone()
            };
            Outcome::ok(s, show)
        }
    }
}

// ---------------------------------------------------------------------------------------------
// entry points (the stateless references and the observed operations)

/// What was asked: (entry point, format, input). `Chars` observations are filed under `Enum`,
/// `LexFresh` under `Lex`: the statement says they must agree.
#[derive(Clone, Debug, PartialEq, Eq, PartialOrd, Ord)]
pub enum Entry {
    Enum,
    SideTruth,
    SideBudget,
    SideStamp,
    SidePunct,
    Lex,
    LexTerm,
    LexFold,
}
pub const ENTRY_NAMES: [&str; 8] = ["enum-parse", "enum-truth", "enum-budget", "enum-stamp", "enum-punctuation", "lexical-parse", "lexical-parse-term", "lexical-parse+fold"];
impl Entry {
    pub fn idx(&self) -> usize {
        match self {
            Entry::Enum => 0,
            Entry::SideTruth => 1,
            Entry::SideBudget => 2,
            Entry::SideStamp => 3,
            Entry::SidePunct => 4,
            Entry::Lex => 5,
            Entry::LexTerm => 6,
            Entry::LexFold => 7,
        }
    }
    pub fn from_idx(i: usize) -> Entry {
        [Entry::Enum, Entry::SideTruth, Entry::SideBudget, Entry::SideStamp, Entry::SidePunct, Entry::Lex, Entry::LexTerm, Entry::LexFold][i].clone()
    }
}

/// the stateless evaluation of one query on the real code (used by clients, by the simulator's
/// "alone" evaluations, and by the restart oracle in a fresh process)
pub fn eval_entry(e: &Entry, f: usize, s: &str) -> Outcome {
    let fmt = enum_format(f);
    // lexical side: the shared static for the stock formats, a freshly derived instance for dialects
    let dialect;
    let lex: &narsese::conversion::string::impl_lexical::NarseseFormat = if f < 3 {
        lex_static(f)
    } else {
        dialect = guarded(|| lex_dialect(f));
        match &dialect {
            Some(d) => d,
            None => return Outcome::panic(),
        }
    };
    match e {
        Entry::Enum => enum_outcome(guarded(|| fmt.parse::<Narsese>(s))),
        Entry::SideTruth => debug_outcome(guarded(|| fmt.parse::<Truth>(s).map(|t| abstract_truth(&t)))),
        Entry::SideBudget => debug_outcome(guarded(|| fmt.parse::<Budget>(s).map(|t| abstract_budget(&t)))),
        Entry::SideStamp => debug_outcome(guarded(|| fmt.parse::<Stamp>(s))),
        Entry::SidePunct => debug_outcome(guarded(|| fmt.parse::<Punctuation>(s))),
        Entry::Lex => debug_outcome(guarded(|| lex.parse(s))),
        Entry::LexTerm => debug_outcome(guarded(|| lex.parse_term(s))),
        Entry::LexFold => enum_outcome(guarded(|| -> Result<Narsese, String> {
            let lexical = lex.parse(s).map_err(|e| e.to_string())?;
            let folded: Result<Narsese, _> = lexical.try_fold_into(fmt);
            folded.map_err(|e| format!("{e:?}"))
        })),
    }
}

// ---------------------------------------------------------------------------------------------
// requests and their faults

pub const FAULT_NAMES: [&str; 31] = [
    "truncate",
    "replace_char",
    "delete_char",
    "insert_char",
    "out_of_range_truth",
    "out_of_range_budget",
    "drop_punctuation",
    "only_budget",
    "only_truth",
    "only_stamp",
    "only_punctuation",
    "term_and_truth_only",
    "budget_and_term_only",
    "duplicate_item",
    "swap_items",
    "garbage_suffix",
    "empty",
    "spaces_only",
    "bad_stamp",
    "other_format",
    "extra_spaces",
    "term_missing",
    "malformed_atom",
    "unfinished_number",
    "dangling_copula_prefix",
    "deep_nesting",
    "empty_container",
    "long_input",
    "invisible_prefix_or_suffix",
    "dialect_copula",
    "foreign_format_item",
];

#[derive(Clone, Debug)]
pub struct Req {
    pub text: String,
    /// the format it was written in
    pub f: usize,
    pub faults: Vec<usize>,
}

struct Items {
    budget: Option<String>,
    term: String,
    punct: Option<String>,
    stamp: Option<String>,
    truth: Option<String>,
}

const NUMS: [f64; 12] = [0.0, 1.0, 0.5, 0.9, 0.25, 0.125, 0.75, 0.99, 0.123456789012345, 0.0000001, 0.30000000000000004, 0.9999999999];

fn gen_items(ch: &mut Choices, f: usize, gp: &GenParams) -> Items {
    let fmt = &ENUM_FORMATS[f];
    // (one input in ten is a bare atom: the generator's descriptions are compounds at the root)
    let d = if ch.chance(1, 10) { gen_desc(ch, &GenParams { max_depth: 0, ..*gp }, 0, false) } else { gen_desc(ch, gp, 0, false) };
    let mut rs = RStats::default();
    let rp = RealiseParams { reorder: false, duplicates: false, capacity: false, wrap: 0, text_routes: false };
    let term = realise(&d, ch, &mut rs, &rp);
    let term_s = fmt.format_term(&term);
    // kind: 0 term, 1 sentence, 2 task
    let kind = ch.weighted(&[25, 40, 35]);
    let num = |ch: &mut Choices| NUMS[ch.choose(NUMS.len() as u32) as usize];
    let punct = if kind >= 1 {
        let p = [Punctuation::Judgement, Punctuation::Goal, Punctuation::Question, Punctuation::Quest][ch.weighted(&[50, 20, 20, 10])].clone();
        Some(fmt.format_punctuation(&p))
    } else {
        None
    };
    let stamp = if kind >= 1 {
        match ch.weighted(&[40, 12, 12, 12, 24]) {
            0 => None,
            1 => Some(fmt.format_stamp(&Stamp::Past)),
            2 => Some(fmt.format_stamp(&Stamp::Present)),
            3 => Some(fmt.format_stamp(&Stamp::Future)),
            _ => Some(fmt.format_stamp(&Stamp::Fixed([0isize, -1, 42, 137, -9000, isize::MAX, isize::MIN + 1, 1 << 40][ch.choose(8) as usize]))),
        }
    } else {
        None
    };
    let truth = if kind >= 1 {
        match ch.weighted(&[30, 20, 50]) {
            0 => None,
            1 => Some(fmt.format_truth(&Truth::Single(num(ch)))),
            _ => Some(fmt.format_truth(&Truth::Double(num(ch), num(ch)))),
        }
    } else {
        None
    };
    let budget = if kind == 2 {
        Some(match ch.weighted(&[15, 20, 25, 40]) {
            0 => fmt.format_budget(&Budget::Empty),
            1 => fmt.format_budget(&Budget::Single(num(ch))),
            2 => fmt.format_budget(&Budget::Double(num(ch), num(ch))),
            _ => fmt.format_budget(&Budget::Triple(num(ch), num(ch), num(ch))),
        })
    } else {
        None
    };
    Items { budget, term: term_s, punct, stamp, truth }
}

fn join(items: &[&Option<String>]) -> String {
    let mut out = String::new();
    for it in items.iter().copied().flatten() {
        if it.is_empty() {
            continue;
        }
        if !out.is_empty() {
            out.push(' ');
        }
        out.push_str(it);
    }
    out
}

fn fault_chars(f: usize) -> &'static [char] {
    match f {
        0 => &['(', ')', '<', '>', '{', '}', '[', ']', ',', '$', '%', ':', ';', '.', '-', '=', '|', '/', '\\', '&', '*', '+', '^', '#', '?', '!', '@', '_', ' ', '0', '7', 'A', 'x'],
        1 => &['\\', '{', '}', '(', ')', '<', '>', '[', ']', ';', ',', '$', '.', '?', '!', '/', '|', '=', 't', ' ', '0', '7', 'A', 'x'],
        _ => &['（', '）', '「', '」', '『', '』', '【', '】', '，', '、', '。', '！', '？', '；', '预', '算', '真', '值', '是', '似', '得', '同', '某', '与', '或', '非', '积', ' ', '0', '7', 'A', 'x'],
    }
}

/// one request: a well-formed surface string in format `f`, passed through request faults
fn gen_request(ch: &mut Choices, gp: &GenParams, fault_rate: u32, f: usize) -> Req {
    let fmt = &ENUM_FORMATS[f];
    let it = gen_items(ch, f, gp);
    let mut faults: Vec<usize> = vec![];
    let some = |s: &str| Some(s.to_string());
    let term = Some(it.term.clone());
    let full = join(&[&it.budget, &term, &it.punct, &it.stamp, &it.truth]);
    // fault_rate: 0 none, else percent
    if fault_rate == 0 || !ch.chance(fault_rate, 100) {
        return Req { text: full, f, faults };
    }
    let num_bad = |ch: &mut Choices| ["2", "1.5", "1.0001", "9", "-1", "1e3", "..", ""][ch.choose(8) as usize];
    let tb = fmt.sentence.truth_brackets;
    let bb = fmt.task.budget_brackets;
    let a_truth = |ch: &mut Choices| -> String {
        it.truth.clone().unwrap_or_else(|| format!("{}{}{}0.5{}", tb.0, NUMS[ch.choose(NUMS.len() as u32) as usize], fmt.sentence.truth_separator, tb.1))
    };
    let a_budget = |ch: &mut Choices| -> String {
        it.budget.clone().unwrap_or_else(|| format!("{}{}{}", bb.0, NUMS[ch.choose(NUMS.len() as u32) as usize], bb.1))
    };
    let a_punct = || it.punct.clone().unwrap_or_else(|| fmt.sentence.punctuation_judgement.to_string());
    let a_stamp = || it.stamp.clone().filter(|s| !s.is_empty()).unwrap_or_else(|| fmt.format_stamp(&Stamp::Present));
    // item-level and character-level faults; index 0 (truncate) is the "simplest"
    let which = ch.weighted(&[14, 8, 6, 8, 9, 7, 5, 5, 5, 4, 4, 7, 5, 4, 3, 3, 1, 1, 3, 3, 2, 3, 6, 5, 5, 3, 4, 2, 4, 4, 5]);
    faults.push(which);
    let text = match which {
        0 => {
            // truncate: biased to die right after an item boundary or inside the last item
            let chars: Vec<char> = full.chars().collect();
            let n = chars.len();
            let k = match ch.weighted(&[40, 30, 30]) {
                0 => ch.choose(n as u32 + 1) as usize,
                1 => {
                    // just after the budget / inside the term
                    let b = it.budget.as_ref().map_or(0, |b| b.chars().count());
                    (b + ch.choose(4) as usize).min(n)
                }
                _ => n.saturating_sub(1 + ch.choose(6) as usize),
            };
            chars[..k].iter().collect()
        }
        1 | 2 | 3 => {
            let mut chars: Vec<char> = full.chars().collect();
            let pool = fault_chars(f);
            let c = pool[ch.choose(pool.len() as u32) as usize];
            if chars.is_empty() {
                chars.push(c);
            } else {
                let k = ch.choose(chars.len() as u32) as usize;
                match which {
                    1 => chars[k] = c,
                    2 => {
                        chars.remove(k);
                    }
                    _ => chars.insert(k, c),
                }
            }
            chars.into_iter().collect()
        }
        4 => {
            // guaranteed Err *after* budget / term / punctuation / stamp were stored
            let bad = format!("{}{}{}{}{}", tb.0, num_bad(ch), fmt.sentence.truth_separator, "0.9", tb.1);
            join(&[&it.budget, &term, &it.punct.clone().or_else(|| Some(a_punct())), &it.stamp, &Some(bad)])
        }
        5 => {
            let bad = format!("{}{}{}{}{}", bb.0, "0.5", fmt.task.budget_separator, num_bad(ch), bb.1);
            join(&[&Some(bad), &term, &it.punct, &it.stamp, &it.truth])
        }
        6 => join(&[&it.budget, &term, &None, &it.stamp, &it.truth]),
        7 => a_budget(ch),
        8 => a_truth(ch),
        9 => a_stamp(),
        10 => a_punct(),
        11 => join(&[&term, &Some(a_truth(ch))]),
        12 => join(&[&Some(a_budget(ch)), &term]),
        13 => {
            let extra = match ch.choose(4) {
                0 => a_truth(ch),
                1 => a_budget(ch),
                2 => a_stamp(),
                _ => a_punct(),
            };
            join(&[&it.budget, &term, &it.punct, &it.stamp, &it.truth, &Some(extra)])
        }
        14 => {
            // items in another order
            let mut v: Vec<Option<String>> = vec![it.budget.clone(), term.clone(), it.punct.clone(), it.stamp.clone(), it.truth.clone()];
            let p = ch.permutation(v.len());
            let mut w = vec![];
            for i in p {
                w.push(v[i].take());
            }
            let refs: Vec<&Option<String>> = w.iter().collect();
            join(&refs)
        }
        15 => format!("{full}{}", ["<", " )", " 0.5", " $", "}}", " A B", "「"][ch.choose(7) as usize]),
        16 => String::new(),
        17 => "   ".to_string(),
        18 => {
            let sb = fmt.sentence.stamp_brackets;
            join(&[&it.budget, &term, &it.punct.clone().or_else(|| Some(a_punct())), &Some(format!("{}{}{}", sb.0, ["x", "!", "!-", "t=", "发生在"][ch.choose(5) as usize], sb.1)), &it.truth])
        }
        19 => {
            // the same value written in another format's vocabulary
            let g = (f + 1 + ch.choose(2) as usize) % 3;
            let it2 = gen_items(ch, g, gp);
            join(&[&it2.budget, &some(&it2.term), &it2.punct, &it2.stamp, &it2.truth])
        }
        20 => {
            let chars: Vec<char> = full.chars().collect();
            let mut out = String::new();
            for c in chars {
                out.push(c);
                if c == ' ' && ch.chance(1, 2) {
                    out.push_str("  ");
                }
            }
            format!(" {out} ")
        }
        21 => join(&[&it.budget, &it.punct.clone().or_else(|| Some(a_punct())), &it.stamp, &it.truth]),
        22 => {
            // an atom that starts like one kind and continues like another: a prefix in front of a
            // name it cannot carry (interval prefix before letters, a second prefix, a lone prefix)
            let a = &fmt.atom;
            let prefixes = [a.prefix_interval, a.prefix_operator, a.prefix_variable_independent, a.prefix_variable_dependent, a.prefix_variable_query, a.prefix_placeholder];
            let pre = prefixes[ch.weighted(&[50, 10, 10, 10, 10, 10])];
            let mut chars: Vec<char> = full.chars().collect();
            let starts: Vec<usize> = (0..chars.len()).filter(|i| chars[*i].is_ascii_alphanumeric() && (*i == 0 || !chars[*i - 1].is_ascii_alphanumeric())).collect();
            if starts.is_empty() {
                format!("{pre}x1")
            } else {
                let k = starts[ch.choose(starts.len() as u32) as usize];
                let tail: String = chars.split_off(k).into_iter().collect();
                let head: String = chars.into_iter().collect();
                let filler = ["", "x", "12ms", "1-2"][ch.choose(4) as usize];
                format!("{head}{pre}{filler}{tail}")
            }
        }
        24 => {
            // the input ends right after an atom name with the first characters of a copula
            // (the atom scanner looks ahead for copulas)
            let chars: Vec<char> = full.chars().collect();
            let ends: Vec<usize> = (0..chars.len()).filter(|i| chars[*i].is_ascii_alphanumeric() && (*i + 1 == chars.len() || !chars[*i + 1].is_ascii_alphanumeric())).collect();
            let cops = fmt.copulas();
            let cop: Vec<char> = cops[ch.choose(cops.len() as u32) as usize].chars().collect();
            let take = 1 + ch.choose(cop.len().max(2) as u32 - 1) as usize;
            let prefix: String = cop[..take.min(cop.len())].iter().collect();
            if ends.is_empty() {
                format!("ab{prefix}")
            } else {
                let k = ends[ch.choose(ends.len() as u32) as usize];
                let head: String = chars[..=k].iter().collect();
                format!("{head}{prefix}")
            }
        }
        29 => {
            // a statement written with the extra copula of the user dialect of this format
            // (well-formed for the dialect, not for the stock format)
            let extra = ["isa", "\\sqsubseteq{}", "属于"][f];
            let sp = fmt.space.format_terms;
            let st = format!("{}A{sp}{extra}{sp}B{}", fmt.statement.brackets.0, fmt.statement.brackets.1);
            match ch.choose(3) {
                0 => st,
                1 => join(&[&it.budget, &Some(st), &it.punct.clone().or_else(|| Some(a_punct())), &it.stamp, &it.truth]),
                _ => {
                    // inside the generated term: replace the first stock copula found
                    let mut t = full.clone();
                    for c in fmt.copulas() {
                        if let Some(pos) = t.find(c) {
                            t.replace_range(pos..pos + c.len(), extra);
                            break;
                        }
                    }
                    t
                }
            }
        }
        28 => {
            // characters an editor or a file format leaves behind and nobody sees: byte order
            // mark, zero-width space, no-break space, ideographic space, tab, line ends
            let inv = ['\u{feff}', '\u{200b}', '\u{a0}', '\u{3000}', '\t', '\n', '\r'][ch.choose(7) as usize];
            match ch.choose(3) {
                0 => format!("{inv}{full}"),
                1 => format!("{full}{inv}"),
                _ => format!("{inv}{full}{inv}"),
            }
        }
        27 => {
            // an input hundreds or thousands of characters long (a compound with 100-400
            // components), complete or left partial in one of the usual ways
            let c = &fmt.compound;
            let n = [80usize, 200, 350][ch.weighted(&[50, 35, 15])];
            let comps: Vec<String> = (0..n).map(|i| format!("a{i}")).collect();
            let conn = [c.connecter_conjunction, c.connecter_product, c.connecter_intersection_extension][ch.choose(3) as usize];
            let sep = format!("{}{}", c.separator, fmt.space.format_terms);
            let long_term = format!("{}{}{}{}{}", c.brackets.0, conn, sep, comps.join(&sep), c.brackets.1);
            match ch.choose(5) {
                0 => join(&[&it.budget, &Some(long_term), &it.punct, &it.stamp, &it.truth]),
                1 => join(&[&Some(a_budget(ch)), &Some(long_term)]),
                2 => join(&[&Some(long_term), &Some(a_truth(ch))]),
                3 => {
                    // malformed at the very end
                    let mut t = long_term;
                    t.pop();
                    join(&[&it.budget, &Some(t), &it.punct])
                }
                _ => join(&[&it.budget, &Some(long_term), &it.punct.clone().or_else(|| Some(a_punct())), &it.stamp, &Some(format!("{}2{}", tb.0, tb.1))]),
            }
        }
        26 => {
            // a container with nothing in it where the term should be (or inside the term)
            let c = &fmt.compound;
            let empty = match ch.choose(5) {
                0 => format!("{}{}", c.brackets_set_extension.0, c.brackets_set_extension.1),
                1 => format!("{}{}", c.brackets_set_intension.0, c.brackets_set_intension.1),
                2 => format!("{}{}{} {}", c.brackets.0, c.connecter_product, c.separator, c.brackets.1),
                3 => format!("{}{}{} {}", c.brackets.0, c.connecter_conjunction_sequential, c.separator, c.brackets.1),
                _ => format!("{}{}{} {} b{}", fmt.statement.brackets.0, c.brackets_set_extension.0, c.brackets_set_extension.1, fmt.statement.copula_inheritance, fmt.statement.brackets.1),
            };
            join(&[&it.budget, &Some(empty), &it.punct, &it.stamp, &it.truth])
        }
        25 => {
            // many unclosed opening brackets in front
            let c = &fmt.compound;
            let open = [c.brackets_set_extension.0, c.brackets_set_intension.0, fmt.statement.brackets.0, c.brackets.0][ch.choose(4) as usize];
            let n = [3usize, 10, 40, 90][ch.choose(4) as usize];
            format!("{}{full}", open.repeat(n))
        }
        30 => {
            // one item pasted in another format's vocabulary, the rest written in this one
            let g = (f + 1 + ch.choose(2) as usize) % 3;
            let gfmt = &ENUM_FORMATS[g];
            let (mut b, mut p, mut s, mut t) = (it.budget.clone(), it.punct.clone().or_else(|| Some(a_punct())), it.stamp.clone(), it.truth.clone());
            match ch.weighted(&[50, 20, 15, 15]) {
                0 => {
                    s = Some(match ch.choose(4) {
                        0 => gfmt.format_stamp(&Stamp::Present),
                        1 => gfmt.format_stamp(&Stamp::Future),
                        _ => gfmt.format_stamp(&Stamp::Fixed([0isize, 42, 137, -1][ch.choose(4) as usize])),
                    })
                }
                1 => t = Some(gfmt.format_truth(&Truth::Double(0.5, 0.9))),
                2 => b = Some(gfmt.format_budget(&Budget::Single(0.5))),
                _ => p = Some(gfmt.format_punctuation(&Punctuation::Judgement)),
            }
            join(&[&b, &term, &p, &s, &t])
        }
        _ => {
            // the input ends while a number is still being read / a number is malformed before its bracket
            let sep = fmt.sentence.truth_separator;
            let bsep = fmt.task.budget_separator;
            match ch.choose(4) {
                0 => join(&[&it.budget, &term, &it.punct, &it.stamp, &Some(format!("{}0.5{sep}0.9", tb.0))]),
                1 => format!("{}0.5{bsep}0.5", bb.0),
                2 => join(&[&it.budget, &term, &it.punct, &it.stamp, &Some(format!("{}1.2.3{}", tb.0, tb.1))]),
                _ => join(&[&Some(format!("{}0.7{bsep}", bb.0)), &term]),
            }
        }
    };
    Req { text, f, faults }
}

// ---------------------------------------------------------------------------------------------
// operations, clients, world

#[derive(Clone, Debug)]
enum Op {
    /// one `parse_multi` call over these request indices
    Batch { f: usize, reqs: Vec<usize>, alone_first: bool },
    /// a stateless entry point
    Call { e: Entry, f: usize, req: usize, variant: u8 },
    /// some OTHER use of the library between parses (formatting in any format, lexical formatting,
    /// hashing / comparing / cloning the parsed term): no verdict of its own, it is history
    Other { f: usize, g: usize, req: usize },
}

#[derive(Default, Clone)]
pub struct SessionsRunStats {
    pub faults: [u64; 31],
    pub requests: u64,
    pub requests_faulty: u64,
    pub ops: u64,
    pub batches: u64,
    pub nested_batches: u64,
    pub batch_items: u64,
    pub interleaved_steps: u64,
    pub calls: [u64; 8],
    pub calls_chars: u64,
    pub calls_lex_fresh: u64,
    pub alone_evals: u64,
    pub observations: u64,
    pub repeats_in_batch: u64,
    pub same_len_variants: u64,
    pub cross_format_pairs: u64,
    pub long_sessions: u64,
    pub soak_runs: u64,
    pub other_calls: u64,
    pub fresh_thread_queries: u64,
    pub space_variants: u64,
    pub calls_temp_format: u64,
    pub coop_runs: u64,
    pub coop_threads: u64,
    pub coop_ops: u64,
    pub coop_yields: u64,
    pub coop_switches: u64,
    pub coop_stalled: u64,
    pub coop_sites: [u64; 8],
    pub skipped_panicking: u64,
    /// [mask][class of the request parsed next]: how often a session was re-targeted with these
    /// slots still filled (probe; hooked build only)
    pub dirty_grid: [[u64; 4]; 32],
    pub dirty_items: u64,
    /// estimate without the probe: items whose predecessor in the session ended in Err or Term
    pub after_unfinished_items: u64,
    pub outcome_kinds: [u64; 5],
    pub clients: u64,
    pub nontrivial: bool,
    pub trace_digest: u64,
    /// queries for the restart oracle: (entry, format, input, outcome observed in this process)
    pub restart_queries: Vec<(Entry, usize, String, Outcome)>,
}

struct State<'w> {
    ch: &'w mut Choices,
    clients: Vec<VecDeque<Op>>,
    hist: BTreeMap<(Entry, usize, String), (Outcome, String)>,
    violations: Vec<Violation>,
    log: Log,
    stats: SessionsRunStats,
    depth: u32,
    seq: u64,
    interleave_num: u32,
    ops_budget: u32,
    trace: Digest,
}

struct World<'w> {
    reqs: &'w [Req],
    st: RefCell<State<'w>>,
}

/// class of an outcome for the reach grid: 0 task, 1 sentence, 2 term, 3 err/panic
fn outcome_class(o: &Outcome) -> usize {
    if o.kind != 2 {
        3
    } else if o.canon.starts_with("Task") {
        0
    } else if o.canon.starts_with("Sentence") {
        1
    } else {
        2
    }
}

#[cfg(narsese_verif)]
fn take_last_dirty() -> Option<u8> {
    narsese::verif_hooks::take_last_dirty()
}
#[cfg(not(narsese_verif))]
fn take_last_dirty() -> Option<u8> {
    None
}

impl<'w> World<'w> {
    fn violate(&self, kind: &str, msg: String) {
        let mut st = self.st.borrow_mut();
        st.log.d.str(kind);
        if st.violations.iter().any(|v| v.kind == kind) {
            return;
        }
        st.log.line(|| format!("!! C08 {kind}: {msg}"));
        st.violations.push(Violation { prop: "C08", kind: kind.to_string(), message: msg });
    }

    /// file an observation; every two observations of the same query must agree
    fn observe(&self, e: &Entry, f: usize, s: &str, o: &Outcome, source: String) {
        let clash = {
            let mut st = self.st.borrow_mut();
            st.stats.observations += 1;
            st.seq += 1;
            let seq = st.seq;
            st.log.d.u64(seq);
            st.log.d.str(&o.wire());
            let key = (e.clone(), f, s.to_string());
            match st.hist.get(&key) {
                None => {
                    st.hist.insert(key, (o.clone(), format!("#{seq} {source}")));
                    None
                }
                Some((first, first_src)) => {
                    if first.agrees(o) {
                        None
                    } else {
                        Some((first.clone(), first_src.clone(), seq))
                    }
                }
            }
        };
        if let Some((first, first_src, seq)) = clash {
            // a panic alone is C04/C05 business; only disagreement among non-panicking outcomes counts
            if first.kind == 1 || o.kind == 1 {
                return;
            }
            self.violate(
                "same-input-different-outcome",
                format!(
                    "{} in {} of {:?}: first observed {} at {}, now {} at #{seq} {source}",
                    ENTRY_NAMES[e.idx()],
                    FORMAT_NAMES[f],
                    s,
                    first.show,
                    first_src,
                    o.show
                ),
            );
        }
    }

    /// the simulator's own stateless evaluation of the enum parser on one input
    fn alone(&self, f: usize, s: &str, why: &str) -> Outcome {
        let o = eval_entry(&Entry::Enum, f, s);
        self.st.borrow_mut().stats.alone_evals += 1;
        self.observe(&Entry::Enum, f, s, &o, format!("simulator alone ({why})"));
        o
    }

    /// let the scheduler run one pending operation of some client; false if none is pending
    fn step(&self, nested: bool) -> bool {
        let (client, op) = {
            let mut st = self.st.borrow_mut();
            if st.ops_budget == 0 {
                return false;
            }
            let ready: Vec<usize> = (0..st.clients.len()).filter(|c| !st.clients[*c].is_empty()).collect();
            if ready.is_empty() {
                return false;
            }
            let pick = ready[st.ch.choose(ready.len() as u32) as usize];
            let op = st.clients[pick].pop_front().unwrap();
            st.ops_budget -= 1;
            st.stats.ops += 1;
            if nested {
                st.stats.interleaved_steps += 1;
            }
            st.trace.u64(pick as u64);
            (pick, op)
        };
        self.exec(client, op, nested);
        true
    }

    fn exec(&self, client: usize, op: Op, nested: bool) {
        match op {
            Op::Other { f, g, req } => {
                let s = &self.reqs[req].text;
                {
                    let mut st = self.st.borrow_mut();
                    st.trace.u64(300 + (f * 3 + g) as u64);
                    st.trace.str(s);
                    st.log.line(|| format!("client {client}: other library use: parse [{}] {:?}, then format it in {} (enum + lexical), hash / compare / clone its term", FORMAT_NAMES[f], s, FORMAT_NAMES[g]));
                }
                let _ = guarded(|| {
                    use std::hash::{Hash, Hasher};
                    if let Ok(v) = enum_format(f).parse::<Narsese>(s) {
                        let text = ENUM_FORMATS[g].format_narsese(&v);
                        let _ = ENUM_FORMATS[g].parse::<Narsese>(&text);
                        let term: &narsese::enum_narsese::Term = match &v {
                            narsese::api::NarseseValue::Term(t) => t,
                            narsese::api::NarseseValue::Sentence(x) => narsese::api::GetTerm::get_term(x),
                            narsese::api::NarseseValue::Task(x) => narsese::api::GetTerm::get_term(x),
                        };
                        let mut h = std::collections::hash_map::DefaultHasher::new();
                        term.hash(&mut h);
                        let c = term.clone();
                        std::hint::black_box((h.finish(), c == *term));
                    }
                    if let Ok(lv) = lex_static(f).parse(s) {
                        let text = lex_static(g).format_narsese(&lv);
                        let _ = lex_static(g).parse(&text);
                        let folded: Result<Narsese, _> = lv.try_fold_into(&ENUM_FORMATS[f]);
                        std::hint::black_box(folded.is_ok());
                    }
                });
            }
            Op::Call { e, f, req, variant } => {
                let s = &self.reqs[req].text;
                {
                    let mut st = self.st.borrow_mut();
                    st.stats.calls[e.idx()] += 1;
                    st.trace.u64(100 + e.idx() as u64);
                    st.trace.str(s);
                    st.log.line(|| format!("client {client}: {}{} [{}] {:?}", ENTRY_NAMES[e.idx()], ["", " (from Vec<char>)", " (fresh instance)", " (format held by value)"][variant as usize], FORMAT_NAMES[f], s));
                }
                let o = match (&e, variant) {
                    (Entry::Enum, 1) => {
                        self.st.borrow_mut().stats.calls_chars += 1;
                        enum_outcome(guarded(|| enum_format(f).parse_chars::<Narsese>(s.chars().collect())))
                    }
                    (Entry::Enum, 3) => {
                        // the format held by value in a reused slot (as `FORMAT_X.parse(..)` on the const does)
                        self.st.borrow_mut().stats.calls_temp_format += 1;
                        enum_outcome(guarded(|| if f < 3 { with_temp_enum_format(f, |fmt| fmt.parse::<Narsese>(s).map_err(|e| e.to_string())) } else { enum_format(f).parse::<Narsese>(s).map_err(|e| e.to_string()) }))
                    }
                    (Entry::Lex, 2) => {
                        self.st.borrow_mut().stats.calls_lex_fresh += 1;
                        debug_outcome(guarded(|| {
                            let fresh = if f < 3 { lex_fresh(f) } else { lex_dialect(f) };
                            fresh.parse(s)
                        }))
                    }
                    (Entry::LexTerm, 2) => {
                        self.st.borrow_mut().stats.calls_lex_fresh += 1;
                        debug_outcome(guarded(|| {
                            let fresh = if f < 3 { lex_fresh(f) } else { lex_dialect(f) };
                            fresh.parse_term(s)
                        }))
                    }
                    _ => eval_entry(&e, f, s),
                };
                self.st.borrow_mut().log.line(|| format!("    -> {}", o.show));
                self.observe(&e, f, s, &o, format!("client {client} {}{}", ENTRY_NAMES[e.idx()], ["", " via parse_chars", " on a fresh instance", " with the format held by value"][variant as usize]));
                // fresh-thread oracle: now and then the same query is asked again at once on a thread
                // that has never used the library (whatever this thread's history left in
                // thread-local state is not there)
                let ask_fresh = self.st.borrow_mut().ch.chance(1, 6);
                if ask_fresh {
                    let o2 = std::thread::scope(|sc| sc.spawn(|| eval_entry(&e, f, s)).join()).unwrap_or_else(|_| Outcome::panic());
                    self.st.borrow_mut().stats.fresh_thread_queries += 1;
                    self.observe(&e, f, s, &o2, "a fresh thread".to_string());
                }
            }
            Op::Batch { f, reqs, alone_first } => {
                let texts: Vec<&'w str> = reqs.iter().map(|r| self.reqs[*r].text.as_str()).collect();
                {
                    let mut st = self.st.borrow_mut();
                    st.stats.batches += 1;
                    if nested {
                        st.stats.nested_batches += 1;
                    }
                    st.trace.u64(200 + f as u64);
                    for t in &texts {
                        st.trace.str(t);
                    }
                    st.log.line(|| format!("client {client}: parse_multi [{}] over {} inputs{}", FORMAT_NAMES[f], texts.len(), if nested { " (nested inside another session)" } else { "" }));
                }
                // optionally evaluate alone BEFORE the session (order of the two evaluations is a
                // schedule decision: a process-wide memo could hide a session defect either way)
                let mut alone_before: Vec<Option<Outcome>> = vec![None; texts.len()];
                let mut keep: Vec<usize> = (0..texts.len()).collect();
                if alone_first {
                    for (i, t) in texts.iter().enumerate() {
                        let o = self.alone(f, t, "before the session");
                        alone_before[i] = Some(o);
                    }
                    // an input that panics on its own is C04 business: keep it out of the session
                    keep.retain(|i| alone_before[*i].as_ref().map_or(true, |o| o.kind != 1));
                    let dropped = texts.len() - keep.len();
                    self.st.borrow_mut().stats.skipped_panicking += dropped as u64;
                }
                let session_texts: Vec<&'w str> = keep.iter().map(|i| texts[*i]).collect();
                let masks: RefCell<Vec<Option<u8>>> = RefCell::new(vec![]);
                let _ = take_last_dirty();
                let it = BatchIter { world: self, texts: &session_texts, pos: 0, client, masks: &masks };
                let results = guarded(|| enum_format(f).parse_multi(it));
                // mask seen by the last re-targeting
                masks.borrow_mut().push(take_last_dirty());
                let masks = masks.into_inner();
                let results = match results {
                    Some(r) => r,
                    None => {
                        // did any input panic on its own? then no verdict
                        let mut own_panic = false;
                        for t in &session_texts {
                            if self.alone(f, t, "after a panicking session").kind == 1 {
                                own_panic = true;
                            }
                        }
                        if !own_panic {
                            self.violate("session-panics-where-alone-does-not", format!("parse_multi [{}] over {:?} panicked; each input parsed alone does not", FORMAT_NAMES[f], session_texts));
                        } else {
                            self.st.borrow_mut().stats.skipped_panicking += 1;
                        }
                        return;
                    }
                };
                if results.len() != session_texts.len() {
                    self.violate("session-result-count-differs", format!("parse_multi [{}] over {} inputs returned {} results", FORMAT_NAMES[f], session_texts.len(), results.len()));
                    return;
                }
                let mut prev_class: Option<usize> = None;
                for (pos, r) in results.into_iter().enumerate() {
                    let t = session_texts[pos];
                    let got = enum_outcome(Some(r));
                    let alone = match &alone_before[keep[pos]] {
                        Some(o) => o.clone(),
                        None => self.alone(f, t, "after the session"),
                    };
                    {
                        let mut st = self.st.borrow_mut();
                        st.stats.batch_items += 1;
                        // masks[pos + 1] is the mask reported when the state was re-targeted at
                        // input `pos` (masks[0] is whatever was pending before the session)
                        let mask = masks.get(pos + 1).copied().flatten();
                        if let Some(m) = mask {
                            st.stats.dirty_grid[m as usize][outcome_class(&alone)] += 1;
                            if m != 0 {
                                st.stats.dirty_items += 1;
                                st.stats.nontrivial = true;
                            }
                        }
                        if let Some(pc) = prev_class {
                            if pc >= 2 {
                                st.stats.after_unfinished_items += 1;
                                if !crate::sim_terms::HOOKED {
                                    st.stats.nontrivial = true;
                                }
                            }
                        }
                        st.stats.outcome_kinds[outcome_class(&alone)] += 1;
                        st.log.line(|| format!("    [{pos}] {:?} -> {}{}", t, got.show, mask.map_or(String::new(), |m| format!("   (slots still filled at re-target: {m:#07b})"))));
                    }
                    prev_class = Some(outcome_class(&alone));
                    if alone.kind == 1 {
                        self.st.borrow_mut().stats.skipped_panicking += 1;
                        continue;
                    }
                    if !got.agrees(&alone) {
                        self.violate(
                            "session-item-differs-from-alone",
                            format!(
                                "parse_multi [{}] over {:?}: position {pos} ({:?}) gave {} but parsed alone gives {}",
                                FORMAT_NAMES[f], session_texts, t, got.show, alone.show
                            ),
                        );
                    }
                    self.observe(&Entry::Enum, f, t, &got, format!("client {client} parse_multi position {pos}"));
                }
            }
        }
    }
}

/// The input iterator of one session, owned by the simulator
struct BatchIter<'b, 'w> {
    world: &'b World<'w>,
    texts: &'b [&'w str],
    pos: usize,
    client: usize,
    masks: &'b RefCell<Vec<Option<u8>>>,
}

impl<'b, 'w> Iterator for BatchIter<'b, 'w> {
    type Item = &'w str;
    fn next(&mut self) -> Option<&'w str> {
        // mask reported by the previous re-targeting of THIS session (read before anyone else runs)
        self.masks.borrow_mut().push(take_last_dirty());
        if self.pos >= self.texts.len() {
            return None;
        }
        // between two inputs of this session the scheduler may run other clients
        let steps = {
            let mut st = self.world.st.borrow_mut();
            let num = st.interleave_num;
            if st.depth < 2 && num > 0 && st.ch.chance(num, 8) {
                1 + st.ch.choose(2)
            } else {
                0
            }
        };
        if steps > 0 {
            self.world.st.borrow_mut().depth += 1;
            for _ in 0..steps {
                if !self.world.step(true) {
                    break;
                }
            }
            self.world.st.borrow_mut().depth -= 1;
            // whatever nested sessions reported is theirs
            let _ = take_last_dirty();
            let c = self.client;
            self.world.st.borrow_mut().log.line(|| format!("client {c}: session resumes"));
        }
        let t = self.texts[self.pos];
        self.pos += 1;
        Some(t)
    }
}

pub struct SessionsReport {
    pub violations: Vec<Violation>,
    pub log: Log,
    pub stats: SessionsRunStats,
}

pub fn run_sessions(ch: &mut Choices, verbose: bool) -> SessionsReport {
    // one run in six: several caller threads at the same time, under the cooperative scheduler
    if ch.chance(1, 6) {
        return run_concurrent_callers(ch, verbose);
    }
    let mut log = Log::new(verbose);
    // ---- swarm parameters ----
    let n_clients = ch.range(1, 4);
    let fault_rate = [0u32, 25, 50, 80][ch.weighted(&[15, 30, 35, 20])];
    let interleave_num = [0u32, 2, 4][ch.weighted(&[30, 40, 30])];
    let gp = GenParams {
        max_depth: ch.range(1, 3),
        max_fan: ch.range(1, 3),
        n_names: ch.range(2, 5),
        unordered_bias: ch.choose(3),
        exotic: false,
        stop_den: 3,
        cjk_names: false,
        many_names: false,
        domain_names: false,
    };
    let gp = GenParams { cjk_names: ch.chance(1, 3), domain_names: ch.chance(1, 4), ..gp };
    let main_format = ch.choose(3) as usize;
    // "soak" runs: one client hammering ONE stateless entry point a few hundred times with mostly
    // faulty requests, re-asking a few valid probes all along (state that accumulates slowly)
    let soak = ch.chance(1, 20);
    let (n_clients, fault_rate) = if soak { (1, 80) } else { (n_clients, fault_rate) };
    let mixed_formats = !soak && ch.chance(1, 3);
    let n_reqs = ch.range(3, 20) as usize;
    log.line(|| format!("world: {n_clients} client(s), request fault rate {fault_rate}%, interleave {interleave_num}/8, main format {}, mixed formats {mixed_formats}, {n_reqs} requests", FORMAT_NAMES[main_format]));

    // ---- requests ----
    let mut stats = SessionsRunStats::default();
    stats.clients = n_clients as u64;
    let mut reqs: Vec<Req> = Vec::with_capacity(n_reqs + 8);
    let mut same_len = 0u64;
    let mut space_variants = 0u64;
    let generated = guarded(|| {
        let mut reqs: Vec<Req> = vec![];
        for _ in 0..n_reqs {
            let f = if mixed_formats { ch.choose(3) as usize } else { main_format };
            // sequence-level fault: the previous request with one blank more or one blank less
            // (blanks separate components in this grammar: `{tom cat}` is not `{tomcat}`)
            if !reqs.is_empty() && ch.chance(1, 12) {
                let prev: &Req = &reqs[reqs.len() - 1];
                let mut chars: Vec<char> = prev.text.chars().collect();
                let blanks: Vec<usize> = (0..chars.len()).filter(|i| chars[*i] == ' ').collect();
                let letters: Vec<usize> = (1..chars.len()).filter(|i| chars[*i].is_alphanumeric() && chars[*i - 1].is_alphanumeric()).collect();
                let done = if !blanks.is_empty() && ch.chance(1, 2) {
                    chars.remove(blanks[ch.choose(blanks.len() as u32) as usize]);
                    true
                } else if !letters.is_empty() {
                    chars.insert(letters[ch.choose(letters.len() as u32) as usize], ' ');
                    true
                } else {
                    false
                };
                if done {
                    space_variants += 1;
                    let r = Req { text: chars.into_iter().collect(), f: prev.f, faults: prev.faults.clone() };
                    reqs.push(r);
                    continue;
                }
            }
            // sequence-level fault: a same-length variant of the previous request
            if !reqs.is_empty() && ch.chance(1, 10) {
                let prev: &Req = &reqs[reqs.len() - 1];
                let mut chars: Vec<char> = prev.text.chars().collect();
                if let Some(k) = chars.iter().rposition(|c| c.is_ascii_alphabetic()) {
                    chars[k] = if chars[k] == 'Z' { 'Y' } else { 'Z' };
                    let r = Req { text: chars.into_iter().collect(), f: prev.f, faults: prev.faults.clone() };
                    reqs.push(r);
                    same_len += 1;
                    continue;
                }
            }
            reqs.push(gen_request(ch, &gp, fault_rate, f));
        }
        reqs
    });
    match generated {
        Some(r) => reqs = r,
        None => {
            log.line(|| "run aborted: panic while formatting requests (no verdict)".to_string());
        }
    }
    if reqs.is_empty() {
        return SessionsReport { violations: vec![], log, stats };
    }
    stats.same_len_variants = same_len;
    stats.space_variants = space_variants;
    for (i, r) in reqs.iter().enumerate() {
        stats.requests += 1;
        if !r.faults.is_empty() {
            stats.requests_faulty += 1;
        }
        for f in &r.faults {
            stats.faults[*f] += 1;
        }
        log.d.str(&r.text);
        log.line(|| format!("request {i} [{}] {:?}{}", FORMAT_NAMES[r.f], r.text, if r.faults.is_empty() { String::new() } else { format!("   faults: {}", r.faults.iter().map(|f| FAULT_NAMES[*f]).collect::<Vec<_>>().join(",")) }));
    }

    // ---- client queues ----
    let mut clients: Vec<VecDeque<Op>> = vec![];
    let mut ops_budget = 40u32;
    if soak {
        stats.soak_runs += 1;
        let e = [Entry::LexFold, Entry::Lex, Entry::LexTerm, Entry::Enum, Entry::SideTruth, Entry::SideBudget][ch.weighted(&[28, 20, 14, 20, 9, 9])].clone();
        let n = ch.range(150, 500);
        ops_budget = n + 8;
        let probes: Vec<usize> = (0..reqs.len()).filter(|i| reqs[*i].faults.is_empty()).collect();
        let mut q = VecDeque::new();
        for k in 0..n {
            let r = if k % 16 == 0 && !probes.is_empty() { probes[ch.choose(probes.len() as u32) as usize] } else { ch.choose(reqs.len() as u32) as usize };
            q.push_back(Op::Call { e: e.clone(), f: reqs[r].f, req: r, variant: 0 });
        }
        clients.push(q);
    }
    for _ in 0..(if soak { 0 } else { n_clients }) {
        let n_ops = ch.range(1, 6);
        let mut q = VecDeque::new();
        for _ in 0..n_ops {
            let pick_req = |ch: &mut Choices| ch.choose(reqs.len() as u32) as usize;
            // stateless calls mostly use the format the request was written in; sometimes another
            // one (the same string under two vocabularies), and sometimes both back to back
            let fmt_of = |ch: &mut Choices, r: usize| {
                // mostly the request's own format; sometimes another stock format; sometimes a user
                // dialect of it (same keywords, another name predicate / one more copula)
                match ch.weighted(&[70, 15, 15]) {
                    0 => reqs[r].f,
                    1 => ch.choose(3) as usize,
                    _ => 3 + reqs[r].f,
                }
            };
            // 0 = batch (the session), then the stateless entry points
            match ch.weighted(&[50, 10, 8, 6, 8, 4, 6, 8, 8]) {
                0 => {
                    // most sessions are short; some are long-lived (state that accumulates)
                    let n = if ch.chance(1, 10) { ch.range(30, 150) as usize } else { ch.range(1, 8) as usize };
                    if n >= 30 {
                        stats.long_sessions += 1;
                    }
                    let f_batch = if ch.chance(1, 12) { ch.choose(3) as usize } else { usize::MAX };
                    let mut ids: Vec<usize> = vec![];
                    for _ in 0..n {
                        // sequence-level faults: repeat the previous request
                        if !ids.is_empty() && ch.chance(1, 8) {
                            ids.push(*ids.last().unwrap());
                            stats.repeats_in_batch += 1;
                        } else {
                            ids.push(pick_req(ch));
                        }
                    }
                    // a session speaks one format: by default the format of its first request
                    let f = if f_batch == usize::MAX { reqs[ids[0]].f } else { f_batch };
                    let f = if ch.chance(1, 12) { 3 + f % 3 } else { f };
                    let alone_first = ch.chance(1, 2);
                    q.push_back(Op::Batch { f, reqs: ids, alone_first });
                }
                8 => {
                    let r = pick_req(ch);
                    stats.other_calls += 1;
                    q.push_back(Op::Other { f: reqs[r].f % 3, g: ch.choose(3) as usize, req: r });
                }
                w => {
                    let mut r = pick_req(ch);
                    let side = ch.choose(4) as usize;
                    if w == 3 && ch.chance(3, 4) {
                        // the stand-alone entry points are mostly fed the matching fragment
                        let want = [8usize, 7, 9, 10][side];
                        let cands: Vec<usize> = (0..reqs.len()).filter(|i| reqs[*i].faults.contains(&want)).collect();
                        if !cands.is_empty() {
                            r = cands[ch.choose(cands.len() as u32) as usize];
                        }
                    }
                    let f = fmt_of(ch, r);
                    let (e, variant) = match w {
                        1 => (Entry::Enum, if ch.chance(1, 3) { 3 } else { 0 }),
                        2 => (Entry::Enum, 1),
                        3 => ([Entry::SideTruth, Entry::SideBudget, Entry::SideStamp, Entry::SidePunct][side].clone(), 0),
                        4 => (Entry::Lex, 0),
                        5 => (Entry::LexTerm, if ch.chance(1, 3) { 2 } else { 0 }),
                        6 => (Entry::LexFold, 0),
                        _ => (Entry::Lex, 2),
                    };
                    q.push_back(Op::Call { e: e.clone(), f, req: r, variant });
                    // sequence-level fault: the same input again at once, under another format or
                    // through the sibling entry point
                    if ch.chance(1, 8) {
                        stats.cross_format_pairs += 1;
                        let g = (f + 1 + ch.choose(2) as usize) % 3;
                        q.push_back(Op::Call { e, f: g, req: r, variant: 0 });
                    }
                }
            }
        }
        clients.push(q);
    }

    // ---- run the world ----
    let world = World {
        reqs: &reqs,
        st: RefCell::new(State {
            ch,
            clients,
            hist: BTreeMap::new(),
            violations: vec![],
            log,
            stats,
            depth: 0,
            seq: 0,
            interleave_num,
            ops_budget,
            trace: Digest::new(),
        }),
    };
    while world.step(false) {}
    let st = world.st.into_inner();
    let mut stats = st.stats;
    let mut log = st.log;
    stats.trace_digest = st.trace.finish();
    // restart-oracle queries: what this process answered, to be asked again of a fresh process
    for ((e, f, s), (o, _)) in st.hist.iter() {
        stats.restart_queries.push((e.clone(), *f, s.clone(), o.clone()));
    }
    log.d.u64(stats.trace_digest);
    if st.ch.overrun {
        log.line(|| "note: decision cap reached; remaining decisions were 0".to_string());
    }
    SessionsReport { violations: st.violations, log, stats }
}


// ---------------------------------------------------------------------------------------------
// concurrent callers (cooperative scheduler, see coop.rs)

/// what one simulated caller thread does
#[derive(Clone, Debug)]
enum COp {
    Call(Entry, usize, usize),
    Batch(usize, Vec<usize>),
}

fn exec_cop(op: &COp, reqs: &[Req]) -> Vec<Outcome> {
    match op {
        COp::Call(e, f, r) => vec![eval_entry(e, *f, &reqs[*r].text)],
        COp::Batch(f, ids) => {
            let texts: Vec<&str> = ids.iter().map(|r| reqs[*r].text.as_str()).collect();
            match guarded(|| ENUM_FORMATS[*f].parse_multi(texts)) {
                None => vec![Outcome::panic()],
                Some(rs) => rs.into_iter().map(|r| enum_outcome(Some(r))).collect(),
            }
        }
    }
}

/// T caller threads use the parsers at the same time. Exactly one runs at any moment; the
/// scheduler switches between them at the library's yield points (term parsers, fold). Every
/// outcome must equal the one the same operation gives when nobody else is around.
fn run_concurrent_callers(ch: &mut Choices, verbose: bool) -> SessionsReport {
    let mut log = Log::new(verbose);
    let mut stats = SessionsRunStats::default();
    let mut violations: Vec<Violation> = vec![];
    let n_threads = ch.range(2, 6) as usize;
    let fault_rate = [0u32, 25, 50][ch.weighted(&[30, 40, 30])];
    let switch_den = [1u64, 2, 4, 16][ch.weighted(&[20, 30, 30, 20])];
    let sched_seed = ch.bits() as u64;
    let gp = GenParams { max_depth: ch.range(1, 3), max_fan: ch.range(1, 3), n_names: ch.range(2, 5), unordered_bias: ch.choose(3), exotic: false, stop_den: 3, cjk_names: ch.chance(1, 3), many_names: false, domain_names: false };
    let main_format = ch.choose(3) as usize;
    let mixed = ch.chance(1, 2);
    let n_reqs = ch.range(3, 10) as usize;
    stats.coop_runs = 1;
    stats.coop_threads = n_threads as u64;
    stats.clients = n_threads as u64;
    log.line(|| format!("world: {n_threads} caller threads at the same time (cooperative scheduler seed {sched_seed:#x}, switch considered at 1/{switch_den} of the yield points), request fault rate {fault_rate}%"));
    let generated = guarded(|| {
        let mut reqs: Vec<Req> = vec![];
        for _ in 0..n_reqs {
            let f = if mixed { ch.choose(3) as usize } else { main_format };
            reqs.push(gen_request(ch, &gp, fault_rate, f));
        }
        // deep, well-formed nesting: keeps a thread inside the recursive term parsers for long
        let n_deep = ch.range(0, 3);
        for _ in 0..n_deep {
            let f = if mixed { ch.choose(3) as usize } else { main_format };
            let c = &ENUM_FORMATS[f].compound;
            let depth = [20usize, 60, 110, 200][ch.choose(4) as usize];
            let (open, close) = if ch.chance(1, 2) { c.brackets_set_extension } else { c.brackets_set_intension };
            let inner = format!("a{}b{}c", c.separator, c.separator);
            reqs.push(Req { text: format!("{}{inner}{}", open.repeat(depth), close.repeat(depth)), f, faults: vec![] });
        }
        reqs
    });
    let Some(reqs) = generated else {
        return SessionsReport { violations, log, stats };
    };
    for (i, r) in reqs.iter().enumerate() {
        stats.requests += 1;
        if !r.faults.is_empty() {
            stats.requests_faulty += 1;
        }
        for f in &r.faults {
            stats.faults[*f] += 1;
        }
        log.d.str(&r.text);
        log.line(|| {
            let shown: String = if r.text.chars().count() > 120 { format!("{}…({} chars)", r.text.chars().take(60).collect::<String>(), r.text.chars().count()) } else { r.text.clone() };
            format!("request {i} [{}] {:?}", FORMAT_NAMES[r.f], shown)
        });
    }
    // operations per thread
    let mut queues: Vec<Vec<COp>> = vec![];
    for _ in 0..n_threads {
        let n_ops = ch.range(1, 4);
        let mut q = vec![];
        for _ in 0..n_ops {
            let r = ch.choose(reqs.len() as u32) as usize;
            let f = reqs[r].f;
            match ch.weighted(&[30, 20, 20, 10, 20]) {
                0 => q.push(COp::Call(Entry::Lex, f, r)),
                1 => q.push(COp::Call(Entry::LexFold, f, r)),
                2 => q.push(COp::Call(Entry::Enum, f, r)),
                3 => q.push(COp::Call(Entry::LexTerm, f, r)),
                _ => {
                    let n = ch.range(1, 4);
                    let mut ids = vec![r];
                    for _ in 1..n {
                        ids.push(ch.choose(reqs.len() as u32) as usize);
                    }
                    q.push(COp::Batch(f, ids));
                }
            }
        }
        stats.coop_ops += q.len() as u64;
        queues.push(q);
    }
    // references: every operation on its own, nobody else around
    let reference: Vec<Vec<Vec<Outcome>>> = queues.iter().map(|q| q.iter().map(|op| exec_cop(op, &reqs)).collect()).collect();
    // the concurrent phase
    let coop = crate::coop::Coop::new(n_threads, sched_seed, switch_den);
    let bodies: Vec<Box<dyn FnOnce() -> Vec<Vec<Outcome>> + Send + '_>> = queues
        .iter()
        .map(|q| {
            let reqs = &reqs;
            Box::new(move || q.iter().map(|op| exec_cop(op, reqs)).collect::<Vec<_>>()) as Box<dyn FnOnce() -> Vec<Vec<Outcome>> + Send + '_>
        })
        .collect();
    // switch at the term parsers and the fold (sites 1-3), not inside Hash / PartialEq
    let results = crate::coop::run_threads(&coop, 0b1110, bodies);
    let cs = coop.stats();
    stats.coop_yields = cs.yields;
    stats.coop_switches = cs.switches;
    stats.coop_stalled = cs.stalled as u64;
    stats.coop_sites = cs.sites;
    stats.ops = stats.coop_ops;
    log.d.u64(cs.yields);
    log.d.u64(cs.switches);
    log.line(|| format!("scheduler: {} yield points passed, {} thread switches, stalled={}", cs.yields, cs.switches, cs.stalled));
    stats.nontrivial = cs.switches > 0;
    let mut td = Digest::new();
    for r in &reqs {
        td.str(&r.text);
    }
    td.u64(sched_seed);
    td.u64(cs.switches);
    stats.trace_digest = td.finish();
    if cs.stalled {
        // threads ran freely for part of the run: not a deterministic execution, no verdict
        log.line(|| "run stalled (a thread blocked on something a parked thread holds): no verdict".to_string());
        return SessionsReport { violations, log, stats };
    }
    for (t, q) in queues.iter().enumerate() {
        let Some(got) = &results[t] else {
            violations.push(Violation { prop: "C08", kind: "panic-under-concurrent-callers".into(), message: format!("caller thread {t} panicked outside the library calls") });
            continue;
        };
        for (k, op) in q.iter().enumerate() {
            let (g, r) = (&got[k], &reference[t][k]);
            stats.observations += g.len() as u64;
            for o in g {
                log.d.str(&o.wire());
            }
            let what = match op {
                COp::Call(e, f, r) => format!("{} [{}] {:?}", ENTRY_NAMES[e.idx()], FORMAT_NAMES[*f], reqs[*r].text.chars().take(80).collect::<String>()),
                COp::Batch(f, ids) => format!("parse_multi [{}] over requests {:?}", FORMAT_NAMES[*f], ids),
            };
            log.line(|| format!("thread {t} op {k}: {what} -> {}", g.iter().map(|o| o.show.chars().take(60).collect::<String>()).collect::<Vec<_>>().join(" | ")));
            let same = g.len() == r.len() && g.iter().zip(r.iter()).all(|(a, b)| a.agrees(b) || a.kind == 1 || b.kind == 1);
            if !same && violations.is_empty() {
                let msg = format!(
                    "with {n_threads} caller threads active, thread {t} got {} for {what}; the same operation alone gives {}",
                    g.iter().map(|o| o.show.chars().take(80).collect::<String>()).collect::<Vec<_>>().join(" | "),
                    r.iter().map(|o| o.show.chars().take(80).collect::<String>()).collect::<Vec<_>>().join(" | ")
                );
                log.line(|| format!("!! C08 outcome-depends-on-concurrent-callers: {msg}"));
                violations.push(Violation { prop: "C08", kind: "outcome-depends-on-concurrent-callers".into(), message: msg });
            }
        }
    }
    // and afterwards, alone again: nothing the concurrent phase did may linger
    for (t, q) in queues.iter().enumerate() {
        for (k, op) in q.iter().enumerate() {
            let again = exec_cop(op, &reqs);
            let r = &reference[t][k];
            let same = again.len() == r.len() && again.iter().zip(r.iter()).all(|(a, b)| a.agrees(b) || a.kind == 1 || b.kind == 1);
            if !same && violations.is_empty() {
                let msg = format!("after the concurrent phase, thread {t}'s operation {k} repeated alone gives a different outcome than before it");
                log.line(|| format!("!! C08 same-input-different-outcome: {msg}"));
                violations.push(Violation { prop: "C08", kind: "same-input-different-outcome".into(), message: msg });
            }
        }
    }
    SessionsReport { violations, log, stats }
}
