//! Outer hashers used to observe `Hash for Term`: all legal, all deterministic.
//! (std `RandomState::new()` is deliberately not used natively: a failing run would not replay.
//!  It is used only under Miri, where its keys are a function of the Miri seed.)

use std::collections::hash_map::DefaultHasher;
use std::hash::{BuildHasher, Hash, Hasher};

/// plain FNV-1a 64
#[derive(Clone, Copy)]
pub struct Fnv(pub u64);
impl Default for Fnv {
    fn default() -> Self {
        Fnv(0xcbf2_9ce4_8422_2325)
    }
}
impl Hasher for Fnv {
    fn write(&mut self, bytes: &[u8]) {
        for b in bytes {
            self.0 = (self.0 ^ (*b as u64)).wrapping_mul(0x0000_0100_0000_01B3);
        }
    }
    fn finish(&self) -> u64 {
        self.0
    }
}

/// keyed multiply-rotate hasher (word-at-a-time; sensitive to how `write_*` calls are split,
/// like many real-world fast hashers)
#[derive(Clone, Copy)]
pub struct Keyed {
    s: u64,
}
#[derive(Clone, Copy)]
pub struct KeyedBuild(pub u64);
impl BuildHasher for KeyedBuild {
    type Hasher = Keyed;
    fn build_hasher(&self) -> Keyed {
        Keyed {
            s: self.0 ^ 0x51_7c_c1_b7_27_22_0a_95,
        }
    }
}
impl Keyed {
    #[inline]
    fn add(&mut self, w: u64) {
        self.s = (self.s.rotate_left(5) ^ w).wrapping_mul(0x517c_c1b7_2722_0a95);
    }
}
impl Hasher for Keyed {
    fn write(&mut self, bytes: &[u8]) {
        let mut chunks = bytes.chunks_exact(8);
        for c in &mut chunks {
            self.add(u64::from_le_bytes(c.try_into().unwrap()));
        }
        let rem = chunks.remainder();
        if !rem.is_empty() {
            let mut buf = [0u8; 8];
            buf[..rem.len()].copy_from_slice(rem);
            self.add(u64::from_le_bytes(buf) ^ ((rem.len() as u64) << 56));
        }
    }
    fn write_u64(&mut self, i: u64) {
        self.add(i)
    }
    fn write_usize(&mut self, i: usize) {
        self.add(i as u64)
    }
    fn finish(&self) -> u64 {
        crate::prng::splitmix(self.s)
    }
}

#[derive(Clone, Copy, Default)]
pub struct SipBuild;
impl BuildHasher for SipBuild {
    type Hasher = DefaultHasher;
    fn build_hasher(&self) -> DefaultHasher {
        DefaultHasher::new()
    }
}
#[derive(Clone, Copy, Default)]
pub struct FnvBuild;
impl BuildHasher for FnvBuild {
    type Hasher = Fnv;
    fn build_hasher(&self) -> Fnv {
        Fnv::default()
    }
}

pub fn hash_with<B: BuildHasher, T: Hash + ?Sized>(b: &B, v: &T) -> u64 {
    let mut h = b.build_hasher();
    v.hash(&mut h);
    h.finish()
}

pub const HASHER_NAMES: [&str; 3] = ["std-siphash13-fixed-keys", "fnv1a64", "keyed-word-hasher"];

/// the three observations of one value
pub fn hash3<T: Hash + ?Sized>(v: &T, key: u64) -> [u64; 3] {
    [
        hash_with(&SipBuild, v),
        hash_with(&FnvBuild, v),
        hash_with(&KeyedBuild(key), v),
    ]
}
