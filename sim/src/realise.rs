//! Realisation schedules: every way the library offers to arrive at a `Term` for a description.
//!
//! Each decision (route, insertion order, duplicates, capacity churn, operand swap) is drawn
//! from the run's choice sequence and counted when it actually fires.

use crate::describe::*;
use crate::formats::*;
use crate::prng::Choices;
use crate::refmodel::*;
use narsese::api::{ExtractTerms, NarseseValue};
use narsese::conversion::inter_type::lexical_fold::TryFoldInto;
use narsese::enum_narsese::{Narsese, Term, TermSetType};

/// fault / schedule kinds, counted when they fire
#[derive(Clone, Debug, Default)]
pub struct RStats {
    pub reorder: u64,
    pub sym_swap: u64,
    pub duplicate: u64,
    pub route_ctor: u64,
    pub route_push_each: u64,
    pub route_push_chunks: u64,
    pub route_handbuilt: u64,
    pub route_repush: u64,
    pub route_clone: u64,
    pub route_extract_rebuild: u64,
    pub route_fmt_parse: [u64; 3],
    pub route_lex_fold: [u64; 3],
    pub route_derived_ctor: u64,
    pub route_atom_variant: u64,
    pub route_failed: u64,
    pub capacity: u64,
    pub noise_sets: u64,
    pub thread_hops: u64,
    pub mutations: u64,
    pub vocabulary_churn: u64,
    pub massive_duplicates: u64,
}

impl RStats {
    pub fn add(&mut self, o: &RStats) {
        self.reorder += o.reorder;
        self.sym_swap += o.sym_swap;
        self.duplicate += o.duplicate;
        self.route_ctor += o.route_ctor;
        self.route_push_each += o.route_push_each;
        self.route_push_chunks += o.route_push_chunks;
        self.route_handbuilt += o.route_handbuilt;
        self.route_repush += o.route_repush;
        self.route_clone += o.route_clone;
        self.route_extract_rebuild += o.route_extract_rebuild;
        for i in 0..3 {
            self.route_fmt_parse[i] += o.route_fmt_parse[i];
            self.route_lex_fold[i] += o.route_lex_fold[i];
        }
        self.route_derived_ctor += o.route_derived_ctor;
        self.route_atom_variant += o.route_atom_variant;
        self.route_failed += o.route_failed;
        self.capacity += o.capacity;
        self.noise_sets += o.noise_sets;
        self.thread_hops += o.thread_hops;
        self.mutations += o.mutations;
        self.vocabulary_churn += o.vocabulary_churn;
        self.massive_duplicates += o.massive_duplicates;
    }
    pub fn pairs(&self) -> Vec<(&'static str, u64)> {
        vec![
            ("reorder", self.reorder),
            ("sym_operand_swap", self.sym_swap),
            ("duplicate", self.duplicate),
            ("route_constructor", self.route_ctor),
            ("route_push_each", self.route_push_each),
            ("route_push_chunks", self.route_push_chunks),
            ("route_handbuilt_set", self.route_handbuilt),
            ("route_repush_union", self.route_repush),
            ("route_clone", self.route_clone),
            ("route_extract_rebuild", self.route_extract_rebuild),
            ("route_format_parse_ascii", self.route_fmt_parse[0]),
            ("route_format_parse_latex", self.route_fmt_parse[1]),
            ("route_format_parse_han", self.route_fmt_parse[2]),
            ("route_lexical_fold_ascii", self.route_lex_fold[0]),
            ("route_lexical_fold_latex", self.route_lex_fold[1]),
            ("route_lexical_fold_han", self.route_lex_fold[2]),
            ("route_derived_constructor", self.route_derived_ctor),
            ("route_atom_variant", self.route_atom_variant),
            ("route_failed_fallback", self.route_failed),
            ("capacity_churn", self.capacity),
            ("history_noise_sets", self.noise_sets),
            ("caller_thread_hops", self.thread_hops),
            ("in_place_mutation_after_hashing", self.mutations),
            ("vocabulary_churn_fresh_names", self.vocabulary_churn),
            ("massive_duplicates_in_one_step", self.massive_duplicates),
        ]
    }
}

/// swarm parameters of the realisation
#[derive(Clone, Copy, Debug)]
pub struct RealiseParams {
    pub reorder: bool,
    pub duplicates: bool,
    pub capacity: bool,
    /// 0 = no wrapper routes, else weight class
    pub wrap: u32,
    /// allow text routes (format+parse, lexical+fold)
    pub text_routes: bool,
}

fn set_variant(k: u8, s: TermSetType) -> Term {
    match k {
        S_SET_EXT => Term::SetExtension(s),
        S_SET_INT => Term::SetIntension(s),
        S_INT_EXT => Term::IntersectionExtension(s),
        S_INT_INT => Term::IntersectionIntension(s),
        S_CONJ => Term::Conjunction(s),
        S_DISJ => Term::Disjunction(s),
        _ => Term::ConjunctionParallel(s),
    }
}
fn set_ctor(k: u8, v: Vec<Term>) -> Term {
    match k {
        S_SET_EXT => Term::new_set_extension(v),
        S_SET_INT => Term::new_set_intension(v),
        S_INT_EXT => Term::new_intersection_extension(v),
        S_INT_INT => Term::new_intersection_intension(v),
        S_CONJ => Term::new_conjunction(v),
        S_DISJ => Term::new_disjunction(v),
        _ => Term::new_conjunction_parallel(v),
    }
}
fn seq_ctor(k: u8, v: Vec<Term>) -> Term {
    match k {
        Q_PRODUCT => Term::new_product(v),
        _ => Term::new_conjunction_sequential(v),
    }
}
fn seq_variant(k: u8, v: Vec<Term>) -> Term {
    match k {
        Q_PRODUCT => Term::Product(v),
        _ => Term::ConjunctionSequential(v),
    }
}
fn pair_ctor(k: u8, a: Term, b: Term) -> Term {
    match k {
        P_DIFF_EXT => Term::new_difference_extension(a, b),
        P_DIFF_INT => Term::new_difference_intension(a, b),
        P_INH => Term::new_inheritance(a, b),
        P_IMPL => Term::new_implication(a, b),
        P_IMPL_PRED => Term::new_implication_predictive(a, b),
        P_IMPL_CONC => Term::new_implication_concurrent(a, b),
        P_IMPL_RETRO => Term::new_implication_retrospective(a, b),
        _ => Term::new_equivalence_predictive(a, b),
    }
}
fn pair_variant(k: u8, a: Term, b: Term) -> Term {
    let (a, b) = (Box::new(a), Box::new(b));
    match k {
        P_DIFF_EXT => Term::DifferenceExtension(a, b),
        P_DIFF_INT => Term::DifferenceIntension(a, b),
        P_INH => Term::Inheritance(a, b),
        P_IMPL => Term::Implication(a, b),
        P_IMPL_PRED => Term::ImplicationPredictive(a, b),
        P_IMPL_CONC => Term::ImplicationConcurrent(a, b),
        P_IMPL_RETRO => Term::ImplicationRetrospective(a, b),
        _ => Term::EquivalencePredictive(a, b),
    }
}
fn sym_variant(k: u8, a: Term, b: Term) -> Term {
    let (a, b) = (Box::new(a), Box::new(b));
    match k {
        Y_SIM => Term::Similarity(a, b),
        Y_EQUIV => Term::Equivalence(a, b),
        _ => Term::EquivalenceConcurrent(a, b),
    }
}
fn sym_ctor(k: u8, a: Term, b: Term) -> Term {
    match k {
        Y_SIM => Term::new_similarity(a, b),
        Y_EQUIV => Term::new_equivalence(a, b),
        _ => Term::new_equivalence_concurrent(a, b),
    }
}

fn atom(kind: u8, name: &str, ch: &mut Choices, st: &mut RStats) -> Term {
    match ch.weighted(&[80, 10, 10]) {
        0 => match kind {
            A_WORD => Term::new_word(name),
            A_IVAR => Term::new_variable_independent(name),
            A_DVAR => Term::new_variable_dependent(name),
            A_QVAR => Term::new_variable_query(name),
            _ => Term::new_operator(name),
        },
        1 => {
            // direct variant around a string with a different capacity history
            st.route_atom_variant += 1;
            let mut s = String::with_capacity(48);
            s.push_str(name);
            match kind {
                A_WORD => Term::Word(s),
                A_IVAR => Term::VariableIndependent(s),
                A_DVAR => Term::VariableDependent(s),
                A_QVAR => Term::VariableQuery(s),
                _ => Term::Operator(s),
            }
        }
        _ => {
            // built under another name, then renamed
            st.route_atom_variant += 1;
            let mut t = match kind {
                A_WORD => Term::new_word("a_rather_long_previous_name"),
                A_IVAR => Term::new_variable_independent("p"),
                A_DVAR => Term::new_variable_dependent("p"),
                A_QVAR => Term::new_variable_query("p"),
                _ => Term::new_operator("previous"),
            };
            let _ = t.set_atom_name(name);
            t
        }
    }
}

/// Build unrelated sets: advances the hasher key tape ("how many maps this thread built before")
pub fn history_noise(ch: &mut Choices, st: &mut RStats) {
    let n = ch.range(1, 3);
    for i in 0..n {
        let t = Term::new_set_extension(vec![Term::new_word("n"), Term::new_interval(i as usize)]);
        st.noise_sets += 1;
        std::hint::black_box(&t);
    }
}

pub fn realise(d: &Desc, ch: &mut Choices, st: &mut RStats, rp: &RealiseParams) -> Term {
    let t = core(d, ch, st, rp);
    if rp.wrap == 0 {
        return t;
    }
    // (the lexical parser backtracks: its cost explodes on deeply nested text, so the text routes are
    //  taken for moderately sized descriptions only - the simulator must stay bounded)
    let text_ok = rp.text_routes && parseable(d) && size(d) <= 40 && depth(d) <= 7;
    let w = rp.wrap;
    let wt = if text_ok { 2 * w } else { 0 };
    match ch.weighted(&[100, 3 * w, 3 * w, wt, wt]) {
        0 => t,
        1 => {
            st.route_clone += 1;
            let c = t.clone();
            drop(t);
            c
        }
        2 => {
            st.route_extract_rebuild += 1;
            let parts = t.extract_terms_to_vec();
            rebuild(d, parts)
        }
        3 => {
            let f = ch.choose(3) as usize;
            let r = guarded(|| {
                let s = ENUM_FORMATS[f].format_term(&t);
                match ENUM_FORMATS[f].parse::<Narsese>(&s) {
                    Ok(NarseseValue::Term(p)) => Some(p),
                    _ => None,
                }
            });
            match r {
                Some(Some(p)) => {
                    st.route_fmt_parse[f] += 1;
                    p
                }
                _ => {
                    st.route_failed += 1;
                    t
                }
            }
        }
        _ => {
            let f = ch.choose(3) as usize;
            let r = guarded(|| {
                let s = ENUM_FORMATS[f].format_term(&t);
                let lexical = lex_static(f).parse_term(&s).ok()?;
                let folded: Result<Term, _> = lexical.try_fold_into(&ENUM_FORMATS[f]);
                folded.ok()
            });
            match r {
                Some(Some(p)) => {
                    st.route_lex_fold[f] += 1;
                    p
                }
                _ => {
                    st.route_failed += 1;
                    t
                }
            }
        }
    }
}

/// rebuild a term of the described constructor from extracted components
fn rebuild(d: &Desc, mut parts: Vec<Term>) -> Term {
    match d {
        Desc::Atom(..) | Desc::Interval(_) | Desc::Placeholder => parts.pop().unwrap(),
        Desc::Set(k, _) => set_ctor(*k, parts),
        Desc::Seq(k, _) => seq_ctor(*k, parts),
        Desc::Image(k, i, _) => {
            let fallback_parts: Vec<Term> = parts
                .iter()
                .filter(|x| !matches!(x, Term::Placeholder))
                .cloned()
                .collect();
            let r = match *k {
                I_EXT => Term::to_image_extension_with_placeholder(parts),
                _ => Term::to_image_intension_with_placeholder(parts),
            };
            r.unwrap_or_else(|| match *k {
                I_EXT => Term::new_image_extension(*i, fallback_parts),
                _ => Term::new_image_intension(*i, fallback_parts),
            })
        }
        Desc::Neg(_) => Term::new_negation(parts.pop().unwrap()),
        Desc::Pair(k, ..) => {
            let b = parts.pop().unwrap();
            let a = parts.pop().unwrap();
            pair_ctor(*k, a, b)
        }
        Desc::Sym(k, ..) => {
            let b = parts.pop().unwrap();
            let a = parts.pop().unwrap();
            sym_ctor(*k, a, b)
        }
    }
}

fn core(d: &Desc, ch: &mut Choices, st: &mut RStats, rp: &RealiseParams) -> Term {
    match d {
        Desc::Atom(k, n) => atom(*k, n, ch, st),
        Desc::Interval(i) => {
            if ch.chance(1, 8) {
                st.route_atom_variant += 1;
                let mut t = Term::new_interval(99);
                let _ = t.set_atom_name(&i.to_string());
                t
            } else {
                Term::new_interval(*i)
            }
        }
        Desc::Placeholder => Term::new_placeholder(),
        Desc::Set(k, kids) => {
            let n = kids.len();
            let order = if rp.reorder {
                ch.permutation(n)
            } else {
                (0..n).collect()
            };
            if order.iter().enumerate().any(|(i, j)| i != *j) {
                st.reorder += 1;
            }
            let mut items: Vec<Term> = Vec::with_capacity(n + 2);
            for &i in &order {
                items.push(realise(&kids[i], ch, st, rp));
                if rp.duplicates && ch.chance(1, 6) {
                    // a differently realised twin of the same element, inserted anywhere
                    let twin = realise(&kids[i], ch, st, rp);
                    let at = ch.choose(items.len() as u32 + 1) as usize;
                    items.insert(at, twin);
                    st.duplicate += 1;
                }
            }
            // massive duplication: a handful of distinct elements handed over dozens of times in one
            // step (constructor, one push_components call, or - through the text routes - one parse)
            if rp.duplicates && !items.is_empty() && items.len() <= 6 && kids.iter().all(|k| matches!(k, Desc::Atom(..) | Desc::Interval(_))) && ch.chance(1, 30) {
                st.massive_duplicates += 1;
                let total = [60usize, 130][ch.choose(2) as usize];
                let base = items.len();
                let mut many: Vec<Term> = Vec::with_capacity(total);
                for i in 0..total {
                    many.push(items[(i * 7 + i / base) % base].clone());
                }
                return if ch.chance(1, 2) {
                    set_ctor(*k, many)
                } else {
                    let mut t = set_ctor(*k, vec![]);
                    t.push_components(many).expect("set accepts components");
                    t
                };
            }
            let hand = if rp.capacity { 20 } else { 0 };
            match ch.weighted(&[40, 14, 12, hand, 12]) {
                0 => {
                    st.route_ctor += 1;
                    set_ctor(*k, items)
                }
                1 => {
                    st.route_push_each += 1;
                    let mut t = set_ctor(*k, vec![]);
                    for x in items {
                        t.push_components(vec![x]).expect("set accepts components");
                    }
                    t
                }
                2 => {
                    st.route_push_chunks += 1;
                    let cut = ch.choose(items.len() as u32 + 1) as usize;
                    let tail = items.split_off(cut);
                    let mut t = set_ctor(*k, items);
                    t.push_components(tail).expect("set accepts components");
                    t
                }
                #[cfg(narsim_portable_sets)]
                3 => {
                    // TermSetType is not a std HashSet on this tree: only the operations every
                    // container offers (construction through the library, Extend)
                    st.route_handbuilt += 1;
                    let mut s: TermSetType = narsese::enum_narsese::new_term_set_type();
                    for x in items {
                        s.extend(std::iter::once(x));
                    }
                    set_variant(*k, s)
                }
                #[cfg(not(narsim_portable_sets))]
                3 => {
                    st.route_handbuilt += 1;
                    let cap = [0usize, 1, 4, 16, 64][ch.choose(5) as usize];
                    let mut s = TermSetType::with_capacity_and_hasher(cap, Default::default());
                    for x in items {
                        if ch.chance(1, 8) {
                            st.capacity += 1;
                            s.reserve(1 + ch.choose(40) as usize);
                        }
                        if ch.chance(1, 8) {
                            st.capacity += 1;
                            let dummy = Term::new_word("__dummy__");
                            s.insert(dummy.clone());
                            s.remove(&dummy);
                        }
                        s.insert(x);
                    }
                    if ch.chance(1, 4) {
                        st.capacity += 1;
                        s.shrink_to_fit();
                    }
                    set_variant(*k, s)
                }
                _ => {
                    // uniting: push equal (differently realised) elements into a finished set
                    st.route_repush += 1;
                    let mut t = set_ctor(*k, items);
                    if n > 0 {
                        let m = ch.range(1, 2.min(n as u32));
                        let again: Vec<Term> = (0..m)
                            .map(|_| {
                                let i = ch.choose(n as u32) as usize;
                                realise(&kids[i], ch, st, rp)
                            })
                            .collect();
                        t.push_components(again).expect("set accepts components");
                    }
                    t
                }
            }
        }
        Desc::Seq(k, kids) => {
            let items: Vec<Term> = kids.iter().map(|x| realise(x, ch, st, rp)).collect();
            match ch.weighted(&[50, 20, 20]) {
                0 => {
                    st.route_ctor += 1;
                    seq_ctor(*k, items)
                }
                1 => {
                    st.route_push_each += 1;
                    let mut t = seq_ctor(*k, vec![]);
                    for x in items {
                        t.push_components(vec![x]).expect("sequence accepts components");
                    }
                    t
                }
                _ => {
                    st.route_handbuilt += 1;
                    let mut v = Vec::with_capacity(items.len() + 1 + ch.choose(30) as usize);
                    v.extend(items);
                    seq_variant(*k, v)
                }
            }
        }
        Desc::Image(k, i, kids) => {
            let mut items: Vec<Term> = kids.iter().map(|x| realise(x, ch, st, rp)).collect();
            let has_ph = kids.iter().any(|x| matches!(x, Desc::Placeholder));
            match ch.weighted(&[50, if has_ph { 0 } else { 25 }, 25]) {
                0 => {
                    st.route_ctor += 1;
                    match *k {
                        I_EXT => Term::new_image_extension(*i, items),
                        _ => Term::new_image_intension(*i, items),
                    }
                }
                1 => {
                    st.route_derived_ctor += 1;
                    items.insert(*i, Term::new_placeholder());
                    let r = match *k {
                        I_EXT => Term::to_image_extension_with_placeholder(items),
                        _ => Term::to_image_intension_with_placeholder(items),
                    };
                    r.expect("placeholder was inserted")
                }
                _ => {
                    st.route_handbuilt += 1;
                    let mut v = Vec::with_capacity(items.len() + 8);
                    v.extend(items);
                    match *k {
                        I_EXT => Term::ImageExtension(*i, v),
                        _ => Term::ImageIntension(*i, v),
                    }
                }
            }
        }
        Desc::Neg(a) => {
            let x = realise(a, ch, st, rp);
            if ch.chance(1, 4) {
                // assembled directly from the public enum variant
                st.route_handbuilt += 1;
                Term::Negation(Box::new(x))
            } else {
                Term::new_negation(x)
            }
        }
        Desc::Pair(k, a, b) => {
            // derived constructors that denote the same term
            if *k == P_INH {
                let inst = match &**a {
                    Desc::Set(S_SET_EXT, v) if v.len() == 1 => Some(&v[0]),
                    _ => None,
                };
                let prop = match &**b {
                    Desc::Set(S_SET_INT, v) if v.len() == 1 => Some(&v[0]),
                    _ => None,
                };
                if (inst.is_some() || prop.is_some()) && ch.chance(1, 2) {
                    st.route_derived_ctor += 1;
                    return match (inst, prop) {
                        (Some(s), Some(p)) => Term::new_instance_property(
                            realise(s, ch, st, rp),
                            realise(p, ch, st, rp),
                        ),
                        (Some(s), None) => {
                            Term::new_instance(realise(s, ch, st, rp), realise(b, ch, st, rp))
                        }
                        (None, Some(p)) => {
                            Term::new_property(realise(a, ch, st, rp), realise(p, ch, st, rp))
                        }
                        _ => unreachable!(),
                    };
                }
            }
            let x = realise(a, ch, st, rp);
            let y = realise(b, ch, st, rp);
            if *k == P_EQUIV_PRED && ch.chance(1, 3) {
                // `A </> B` written as the retrospective `B <\> A`
                st.route_derived_ctor += 1;
                return Term::new_equivalence_retrospective(y, x);
            }
            if ch.chance(1, 4) {
                st.route_handbuilt += 1;
                return pair_variant(*k, x, y);
            }
            pair_ctor(*k, x, y)
        }
        Desc::Sym(k, a, b) => {
            let x = realise(a, ch, st, rp);
            let y = realise(b, ch, st, rp);
            let (x, y) = if rp.reorder && ch.chance(1, 2) {
                st.sym_swap += 1;
                (y, x)
            } else {
                (x, y)
            };
            if ch.chance(1, 3) {
                // assembled directly from the public enum variant (no constructor in between)
                st.route_handbuilt += 1;
                sym_variant(*k, x, y)
            } else {
                sym_ctor(*k, x, y)
            }
        }
    }
}
