//! Cooperative scheduler: several real caller threads, exactly one of which runs at any time.
//!
//! The library calls `verif_hooks::yield_point(site)` at a few places (term parsers, fold, `Hash`,
//! `PartialEq`; hooked build only). Each simulated thread installs a hook there that asks this
//! scheduler whether to go on or to park and hand the processor to another thread. Who runs next
//! is drawn from a PRNG seeded by ONE decision of the run's choice sequence, under the scheduler's
//! lock, by the thread that is running — so the interleaving is a pure function of the run's
//! decisions and replays exactly. Threads are real (thread-locals, `Once`, locks behave as in
//! production); what is simulated is the choice of who runs.
//!
//! If the running thread blocks on something a parked thread holds (a lock a change introduced),
//! nobody makes progress: after ~2 s the run is declared *stalled*, all threads are released to
//! run freely, and the run gives no verdict (counted).

use crate::prng::Xoshiro;
use std::sync::{Arc, Condvar, Mutex};
use std::time::Duration;

/// scheduling decisions per run are bounded
const MAX_SCHEDULED_YIELDS: u64 = 3000;

pub struct Coop {
    inner: Mutex<Inner>,
    cv: Condvar,
}

struct Inner {
    rng: Xoshiro,
    /// a switch is considered at every yield point with probability 1/switch_den
    switch_den: u64,
    current: usize,
    finished: Vec<bool>,
    progress: u64,
    stalled: bool,
    pub yields: u64,
    pub switches: u64,
    pub sites: [u64; 8],
}

#[derive(Clone, Copy, Default, Debug)]
pub struct CoopStats {
    pub yields: u64,
    pub switches: u64,
    pub stalled: bool,
    pub sites: [u64; 8],
}

impl Coop {
    pub fn new(threads: usize, seed: u64, switch_den: u64) -> Arc<Coop> {
        let mut rng = Xoshiro::new(seed);
        let first = rng.below(threads as u64) as usize;
        Arc::new(Coop {
            inner: Mutex::new(Inner {
                rng,
                switch_den: switch_den.max(1),
                current: first,
                finished: vec![false; threads],
                progress: 0,
                stalled: false,
                yields: 0,
                switches: 0,
                sites: [0; 8],
            }),
            cv: Condvar::new(),
        })
    }

    fn wait_turn<'a>(&'a self, me: usize, mut g: std::sync::MutexGuard<'a, Inner>) -> std::sync::MutexGuard<'a, Inner> {
        let mut idle_rounds = 0;
        let mut seen = g.progress;
        while g.current != me && !g.stalled {
            let (ng, to) = self.cv.wait_timeout(g, Duration::from_millis(500)).unwrap_or_else(|e| e.into_inner());
            g = ng;
            if to.timed_out() {
                if g.progress == seen {
                    idle_rounds += 1;
                    if idle_rounds >= 4 {
                        // the thread whose turn it is does not move: it is blocked on something a
                        // parked thread holds. Let everybody run; this run gives no verdict.
                        g.stalled = true;
                        self.cv.notify_all();
                    }
                } else {
                    seen = g.progress;
                    idle_rounds = 0;
                }
            }
        }
        g
    }

    /// called by a simulated thread before its first operation
    pub fn begin(&self, me: usize) {
        let g = self.inner.lock().unwrap_or_else(|e| e.into_inner());
        let _g = self.wait_turn(me, g);
    }

    /// called from the library's yield points
    pub fn yield_now(&self, me: usize, site: u32) {
        let mut g = self.inner.lock().unwrap_or_else(|e| e.into_inner());
        g.yields += 1;
        g.progress += 1;
        g.sites[(site as usize).min(7)] += 1;
        if g.stalled || g.yields > MAX_SCHEDULED_YIELDS {
            // (bounded runs: past this many yield points the running thread simply runs on)
            return;
        }
        let den = g.switch_den;
        if g.rng.below(den) != 0 {
            return;
        }
        let alive: Vec<usize> = (0..g.finished.len()).filter(|i| !g.finished[*i]).collect();
        if alive.len() <= 1 {
            return;
        }
        let next = alive[g.rng.below(alive.len() as u64) as usize];
        if next == me {
            return;
        }
        g.switches += 1;
        g.current = next;
        self.cv.notify_all();
        let _g = self.wait_turn(me, g);
    }

    /// called by a simulated thread after its last operation
    pub fn finish(&self, me: usize) {
        let mut g = self.inner.lock().unwrap_or_else(|e| e.into_inner());
        g.finished[me] = true;
        g.progress += 1;
        let alive: Vec<usize> = (0..g.finished.len()).filter(|i| !g.finished[*i]).collect();
        if !alive.is_empty() {
            let next = alive[g.rng.below(alive.len() as u64) as usize];
            g.current = next;
        }
        self.cv.notify_all();
    }

    pub fn stats(&self) -> CoopStats {
        let g = self.inner.lock().unwrap_or_else(|e| e.into_inner());
        CoopStats { yields: g.yields, switches: g.switches, stalled: g.stalled, sites: g.sites }
    }
}

/// Run `bodies[i]` on thread i under the scheduler; returns their results in thread order.
#[cfg(narsese_verif)]
pub fn run_threads<R: Send>(coop: &Arc<Coop>, site_mask: u32, bodies: Vec<Box<dyn FnOnce() -> R + Send + '_>>) -> Vec<Option<R>> {
    std::thread::scope(|sc| {
        let handles: Vec<_> = bodies
            .into_iter()
            .enumerate()
            .map(|(me, body)| {
                let coop = Arc::clone(coop);
                sc.spawn(move || {
                    let hook_coop = Arc::clone(&coop);
                    narsese::verif_hooks::set_yield_hook(Some(std::rc::Rc::new(move |site| {
                        // only the sites this simulation schedules at
                        if site_mask & (1 << site.min(31)) != 0 {
                            hook_coop.yield_now(me, site)
                        }
                    })));
                    coop.begin(me);
                    let r = std::panic::catch_unwind(std::panic::AssertUnwindSafe(body)).ok();
                    narsese::verif_hooks::set_yield_hook(None);
                    coop.finish(me);
                    r
                })
            })
            .collect();
        handles.into_iter().map(|h| h.join().unwrap_or(None)).collect()
    })
}

#[cfg(not(narsese_verif))]
pub fn run_threads<R: Send>(_coop: &Arc<Coop>, _site_mask: u32, bodies: Vec<Box<dyn FnOnce() -> R + Send + '_>>) -> Vec<Option<R>> {
    // no yield points without the hooks: run the bodies one after the other
    bodies.into_iter().map(|b| std::panic::catch_unwind(std::panic::AssertUnwindSafe(b)).ok()).collect()
}
