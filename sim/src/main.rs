//! narsim — deterministic simulation driver for Narsese.rs (see /verif/DESIGN.md)
//!
//!   narsim run --prop C06|C07|C08 --tier quick|thorough [--runs N] [--workers N] [--seed S]
//!              [--evidence FILE] [--replay-dir DIR] [--known FILE] [--dump-digests] [--no-evidence]
//!   narsim replay FILE
//!   narsim oracle ENTRY FORMAT HEXINPUT        (restart oracle: one query in a fresh process)
//!
//! exit 0: property held on everything explored; exit 1: VIOLATION line printed; exit 2: harness error

mod coop;
mod describe;
mod driver;
mod formats;
mod hashers;
mod minimise;
mod prng;
mod realise;
mod refmodel;
mod report;
mod sim_sessions;
mod sim_terms;
mod threads;

use std::process::ExitCode;

fn main() -> ExitCode {
    // panics inside the library under test are outcomes, not noise
    std::panic::set_hook(Box::new(|_| {}));
    let args: Vec<String> = std::env::args().skip(1).collect();
    let code = match args.first().map(|s| s.as_str()) {
        Some("run") => driver::cmd_run(&args[1..]),
        Some("replay") => driver::cmd_replay(&args[1..]),
        Some("oracle") => driver::cmd_oracle(&args[1..]),
        Some("segment") => driver::cmd_segment(&args[1..]),
        Some("history") => driver::cmd_history(&args[1..]),
        Some("threads") => threads::cmd_threads(&args[1..]),
        _ => {
            eprintln!("usage: narsim run|replay|oracle|threads ...");
            2
        }
    };
    ExitCode::from(code)
}
