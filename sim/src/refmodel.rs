//! Reference model: the canonical form of a Narsese term, and the abstraction of real values.
//!
//! `RTerm` is an independent algebraic datatype with derived `Ord`. Two real `Term`s denote the
//! same Narsese term iff their `RTerm`s are equal. `abstract_term` walks the real value by
//! matching its public enum variants and `set.iter()`; it never calls `Term::eq` or
//! `Term::hash`, so it cannot inherit their defects.

use crate::prng::Digest;
use narsese::api::NarseseValue;
use narsese::enum_narsese::{Budget, Narsese, Sentence, Stamp, Task, Term, Truth};
use std::collections::BTreeSet;

// constructor codes (shared with the description trees)
pub const A_WORD: u8 = 0;
pub const A_IVAR: u8 = 1;
pub const A_DVAR: u8 = 2;
pub const A_QVAR: u8 = 3;
pub const A_OP: u8 = 4;

pub const S_SET_EXT: u8 = 0;
pub const S_SET_INT: u8 = 1;
pub const S_INT_EXT: u8 = 2;
pub const S_INT_INT: u8 = 3;
pub const S_CONJ: u8 = 4;
pub const S_DISJ: u8 = 5;
pub const S_CONJ_PAR: u8 = 6;
pub const N_SET: u8 = 7;

pub const Q_PRODUCT: u8 = 0;
pub const Q_CONJ_SEQ: u8 = 1;
pub const N_SEQ: u8 = 2;

pub const I_EXT: u8 = 0;
pub const I_INT: u8 = 1;

pub const P_DIFF_EXT: u8 = 0;
pub const P_DIFF_INT: u8 = 1;
pub const P_INH: u8 = 2;
pub const P_IMPL: u8 = 3;
pub const P_IMPL_PRED: u8 = 4;
pub const P_IMPL_CONC: u8 = 5;
pub const P_IMPL_RETRO: u8 = 6;
pub const P_EQUIV_PRED: u8 = 7;
pub const N_PAIR: u8 = 8;

pub const Y_SIM: u8 = 0;
pub const Y_EQUIV: u8 = 1;
pub const Y_EQUIV_CONC: u8 = 2;
pub const N_SYM: u8 = 3;

/// Canonical form. `Set` holds exactly the seven unordered constructors of the property
/// statement, `Sym` exactly the three symmetric copulas (operands stored min, max).
#[derive(Clone, Debug, PartialEq, Eq, PartialOrd, Ord)]
pub enum RTerm {
    Atom(u8, String),
    Interval(usize),
    Placeholder,
    Set(u8, BTreeSet<RTerm>),
    Seq(u8, Vec<RTerm>),
    Image(u8, usize, Vec<RTerm>),
    Neg(Box<RTerm>),
    Pair(u8, Box<RTerm>, Box<RTerm>),
    Sym(u8, Box<RTerm>, Box<RTerm>),
}

pub fn sym(kind: u8, a: RTerm, b: RTerm) -> RTerm {
    if a <= b {
        RTerm::Sym(kind, Box::new(a), Box::new(b))
    } else {
        RTerm::Sym(kind, Box::new(b), Box::new(a))
    }
}

/// The abstraction function: real value -> canonical form
pub fn abstract_term(t: &Term) -> RTerm {
    use Term::*;
    let set = |k: u8, s: &narsese::enum_narsese::TermSetType| {
        RTerm::Set(k, s.iter().map(abstract_term).collect())
    };
    let seq = |v: &Vec<Term>| v.iter().map(abstract_term).collect::<Vec<_>>();
    let pair = |k: u8, a: &Term, b: &Term| {
        RTerm::Pair(k, Box::new(abstract_term(a)), Box::new(abstract_term(b)))
    };
    match t {
        Word(n) => RTerm::Atom(A_WORD, n.clone()),
        Placeholder => RTerm::Placeholder,
        VariableIndependent(n) => RTerm::Atom(A_IVAR, n.clone()),
        VariableDependent(n) => RTerm::Atom(A_DVAR, n.clone()),
        VariableQuery(n) => RTerm::Atom(A_QVAR, n.clone()),
        Interval(i) => RTerm::Interval(*i),
        Operator(n) => RTerm::Atom(A_OP, n.clone()),
        SetExtension(s) => set(S_SET_EXT, s),
        SetIntension(s) => set(S_SET_INT, s),
        IntersectionExtension(s) => set(S_INT_EXT, s),
        IntersectionIntension(s) => set(S_INT_INT, s),
        Conjunction(s) => set(S_CONJ, s),
        Disjunction(s) => set(S_DISJ, s),
        ConjunctionParallel(s) => set(S_CONJ_PAR, s),
        DifferenceExtension(a, b) => pair(P_DIFF_EXT, a, b),
        DifferenceIntension(a, b) => pair(P_DIFF_INT, a, b),
        Product(v) => RTerm::Seq(Q_PRODUCT, seq(v)),
        ConjunctionSequential(v) => RTerm::Seq(Q_CONJ_SEQ, seq(v)),
        ImageExtension(i, v) => RTerm::Image(I_EXT, *i, seq(v)),
        ImageIntension(i, v) => RTerm::Image(I_INT, *i, seq(v)),
        Negation(a) => RTerm::Neg(Box::new(abstract_term(a))),
        Inheritance(a, b) => pair(P_INH, a, b),
        Implication(a, b) => pair(P_IMPL, a, b),
        ImplicationPredictive(a, b) => pair(P_IMPL_PRED, a, b),
        ImplicationConcurrent(a, b) => pair(P_IMPL_CONC, a, b),
        ImplicationRetrospective(a, b) => pair(P_IMPL_RETRO, a, b),
        EquivalencePredictive(a, b) => pair(P_EQUIV_PRED, a, b),
        Similarity(a, b) => sym(Y_SIM, abstract_term(a), abstract_term(b)),
        Equivalence(a, b) => sym(Y_EQUIV, abstract_term(a), abstract_term(b)),
        EquivalenceConcurrent(a, b) => sym(Y_EQUIV_CONC, abstract_term(a), abstract_term(b)),
    }
}

/// Digest of the *physical* shape of a real value: like the canonical form, but unordered
/// containers contribute their elements in iteration order and symmetric statements their
/// operands in stored order. Two values with equal `RTerm` and different layout digests are a
/// twin pair in which the perturbation (insertion order / hasher key / operand order) actually
/// manifested. Also counts the unordered nodes visited.
pub fn layout_digest(t: &Term, d: &mut Digest, unordered_nodes: &mut u32) {
    use Term::*;
    match t {
        Word(n) | VariableIndependent(n) | VariableDependent(n) | VariableQuery(n)
        | Operator(n) => {
            d.u64(1);
            d.str(n)
        }
        Placeholder => d.u64(2),
        Interval(i) => {
            d.u64(3);
            d.u64(*i as u64)
        }
        SetExtension(s)
        | SetIntension(s)
        | IntersectionExtension(s)
        | IntersectionIntension(s)
        | Conjunction(s)
        | Disjunction(s)
        | ConjunctionParallel(s) => {
            *unordered_nodes += 1;
            d.u64(4);
            d.u64(s.len() as u64);
            for x in s.iter() {
                layout_digest(x, d, unordered_nodes);
            }
            d.u64(5);
        }
        Product(v) | ConjunctionSequential(v) | ImageExtension(_, v) | ImageIntension(_, v) => {
            d.u64(6);
            for x in v.iter() {
                layout_digest(x, d, unordered_nodes);
            }
            d.u64(7);
        }
        Negation(a) => {
            d.u64(8);
            layout_digest(a, d, unordered_nodes)
        }
        Similarity(a, b) | Equivalence(a, b) | EquivalenceConcurrent(a, b) => {
            *unordered_nodes += 1;
            d.u64(9);
            layout_digest(a, d, unordered_nodes);
            layout_digest(b, d, unordered_nodes);
        }
        DifferenceExtension(a, b)
        | DifferenceIntension(a, b)
        | Inheritance(a, b)
        | Implication(a, b)
        | ImplicationPredictive(a, b)
        | ImplicationConcurrent(a, b)
        | ImplicationRetrospective(a, b)
        | EquivalencePredictive(a, b) => {
            d.u64(10);
            layout_digest(a, d, unordered_nodes);
            layout_digest(b, d, unordered_nodes);
        }
    }
}

pub fn layout_of(t: &Term) -> (u64, u32) {
    let mut d = Digest::new();
    let mut n = 0;
    layout_digest(t, &mut d, &mut n);
    (d.finish(), n)
}

/// true if some unordered container nested *inside another unordered container or a symmetric
/// statement* exists (only then does equality go through `Term::hash`)
pub fn has_nested_unordered(t: &RTerm, inside: bool) -> bool {
    match t {
        RTerm::Atom(..) | RTerm::Interval(_) | RTerm::Placeholder => false,
        RTerm::Set(_, s) => inside && !s.is_empty() || s.iter().any(|x| has_nested_unordered(x, true)),
        RTerm::Sym(_, a, b) => inside || has_nested_unordered(a, true) || has_nested_unordered(b, true),
        RTerm::Seq(_, v) | RTerm::Image(_, _, v) => v.iter().any(|x| has_nested_unordered(x, inside)),
        RTerm::Neg(a) => has_nested_unordered(a, inside),
        RTerm::Pair(_, a, b) => has_nested_unordered(a, inside) || has_nested_unordered(b, inside),
    }
}

pub fn digest_rterm(t: &RTerm, d: &mut Digest) {
    match t {
        RTerm::Atom(k, n) => {
            d.u64(1 + ((*k as u64) << 8));
            d.str(n)
        }
        RTerm::Interval(i) => {
            d.u64(2);
            d.u64(*i as u64)
        }
        RTerm::Placeholder => d.u64(3),
        RTerm::Set(k, s) => {
            d.u64(4 + ((*k as u64) << 8));
            for x in s {
                digest_rterm(x, d)
            }
            d.u64(5)
        }
        RTerm::Seq(k, v) => {
            d.u64(6 + ((*k as u64) << 8));
            for x in v {
                digest_rterm(x, d)
            }
            d.u64(7)
        }
        RTerm::Image(k, i, v) => {
            d.u64(8 + ((*k as u64) << 8));
            d.u64(*i as u64);
            for x in v {
                digest_rterm(x, d)
            }
            d.u64(9)
        }
        RTerm::Neg(a) => {
            d.u64(10);
            digest_rterm(a, d)
        }
        RTerm::Pair(k, a, b) => {
            d.u64(11 + ((*k as u64) << 8));
            digest_rterm(a, d);
            digest_rterm(b, d)
        }
        RTerm::Sym(k, a, b) => {
            d.u64(12 + ((*k as u64) << 8));
            digest_rterm(a, d);
            digest_rterm(b, d)
        }
    }
}

/// ASCII-like rendering for narratives and replay files
pub fn show_rterm(t: &RTerm) -> String {
    let mut s = String::new();
    show_into(t, &mut s);
    s
}
fn show_list<'a>(out: &mut String, head: &str, it: impl Iterator<Item = &'a RTerm>, tail: &str) {
    out.push_str(head);
    let mut first = head.ends_with('{') || head.ends_with('[');
    for x in it {
        if !first {
            out.push_str(", ");
        }
        first = false;
        show_into(x, out);
    }
    out.push_str(tail);
}
fn show_into(t: &RTerm, out: &mut String) {
    match t {
        RTerm::Atom(k, n) => {
            out.push_str(["", "$", "#", "?", "^"][*k as usize]);
            out.push_str(n)
        }
        RTerm::Interval(i) => out.push_str(&format!("+{i}")),
        RTerm::Placeholder => out.push('_'),
        RTerm::Set(k, s) => match *k {
            S_SET_EXT => show_list(out, "{", s.iter(), "}"),
            S_SET_INT => show_list(out, "[", s.iter(), "]"),
            _ => show_list(
                out,
                ["", "", "(&", "(|", "(&&", "(||", "(&|"][*k as usize],
                s.iter(),
                ")",
            ),
        },
        RTerm::Seq(k, v) => show_list(out, ["(*", "(&/"][*k as usize], v.iter(), ")"),
        RTerm::Image(k, i, v) => {
            out.push_str(["(/", "(\\"][*k as usize]);
            for (j, x) in v.iter().enumerate() {
                if j == *i {
                    out.push_str(", _");
                }
                out.push_str(", ");
                show_into(x, out);
            }
            if *i >= v.len() {
                out.push_str(", _");
            }
            out.push(')');
        }
        RTerm::Neg(a) => {
            out.push_str("(--, ");
            show_into(a, out);
            out.push(')')
        }
        RTerm::Pair(k, a, b) => {
            if *k <= P_DIFF_INT {
                out.push_str(["(-, ", "(~, "][*k as usize]);
                show_into(a, out);
                out.push_str(", ");
                show_into(b, out);
                out.push(')');
            } else {
                out.push('<');
                show_into(a, out);
                out.push_str(
                    [" ", " ", " --> ", " ==> ", " =/> ", " =|> ", " =\\> ", " </> "][*k as usize],
                );
                show_into(b, out);
                out.push('>');
            }
        }
        RTerm::Sym(k, a, b) => {
            out.push('<');
            show_into(a, out);
            out.push_str([" <-> ", " <=> ", " <|> "][*k as usize]);
            show_into(b, out);
            out.push('>');
        }
    }
}

// ---------------------------------------------------------------------------------------------
// sentences, tasks, whole values

fn fbits(x: f64) -> u64 {
    // +0.0 and -0.0 are the same number
    if x == 0.0 {
        0
    } else {
        x.to_bits()
    }
}

#[derive(Clone, Debug, PartialEq, Eq, PartialOrd, Ord)]
pub struct RSentence {
    pub punctuation: u8,
    pub term: RTerm,
    /// (kind, fixed time)
    pub stamp: (u8, i64),
    /// None for questions / quests (they carry no truth)
    pub truth: Option<Vec<u64>>,
}

#[derive(Clone, Debug, PartialEq, Eq, PartialOrd, Ord)]
pub enum RValue {
    Term(RTerm),
    Sentence(RSentence),
    Task(RSentence, Vec<u64>),
}

pub fn abstract_truth(t: &Truth) -> Vec<u64> {
    match t {
        Truth::Empty => vec![],
        Truth::Single(f) => vec![fbits(*f)],
        Truth::Double(f, c) => vec![fbits(*f), fbits(*c)],
    }
}
pub fn abstract_budget(b: &Budget) -> Vec<u64> {
    match b {
        Budget::Empty => vec![],
        Budget::Single(p) => vec![fbits(*p)],
        Budget::Double(p, d) => vec![fbits(*p), fbits(*d)],
        Budget::Triple(p, d, q) => vec![fbits(*p), fbits(*d), fbits(*q)],
    }
}
pub fn abstract_stamp(s: &Stamp) -> (u8, i64) {
    match s {
        Stamp::Eternal => (0, 0),
        Stamp::Past => (1, 0),
        Stamp::Present => (2, 0),
        Stamp::Future => (3, 0),
        Stamp::Fixed(t) => (4, *t as i64),
    }
}
pub fn abstract_sentence(s: &Sentence) -> RSentence {
    match s {
        Sentence::Judgement(t, tr, st) => RSentence {
            punctuation: 0,
            term: abstract_term(t),
            stamp: abstract_stamp(st),
            truth: Some(abstract_truth(tr)),
        },
        Sentence::Goal(t, tr, st) => RSentence {
            punctuation: 1,
            term: abstract_term(t),
            stamp: abstract_stamp(st),
            truth: Some(abstract_truth(tr)),
        },
        Sentence::Question(t, st) => RSentence {
            punctuation: 2,
            term: abstract_term(t),
            stamp: abstract_stamp(st),
            truth: None,
        },
        Sentence::Quest(t, st) => RSentence {
            punctuation: 3,
            term: abstract_term(t),
            stamp: abstract_stamp(st),
            truth: None,
        },
    }
}
pub fn abstract_task(t: &Task) -> RValue {
    RValue::Task(abstract_sentence(&t.0), abstract_budget(&t.1))
}
pub fn abstract_value(v: &Narsese) -> RValue {
    match v {
        NarseseValue::Term(t) => RValue::Term(abstract_term(t)),
        NarseseValue::Sentence(s) => RValue::Sentence(abstract_sentence(s)),
        NarseseValue::Task(t) => abstract_task(t),
    }
}

pub fn show_rvalue(v: &RValue) -> String {
    fn nums(v: &[u64]) -> String {
        v.iter()
            .map(|b| format!("{}", f64::from_bits(*b)))
            .collect::<Vec<_>>()
            .join(";")
    }
    fn sent(s: &RSentence) -> String {
        let st = match s.stamp {
            (0, _) => String::new(),
            (1, _) => " :\\:".into(),
            (2, _) => " :|:".into(),
            (3, _) => " :/:".into(),
            (_, t) => format!(" :!{t}:"),
        };
        let tr = match &s.truth {
            None => String::new(),
            Some(v) if v.is_empty() => String::new(),
            Some(v) => format!(" %{}%", nums(v)),
        };
        format!(
            "{}{}{}{}",
            show_rterm(&s.term),
            [".", "!", "?", "@"][s.punctuation as usize],
            st,
            tr
        )
    }
    match v {
        RValue::Term(t) => format!("Term {}", show_rterm(t)),
        RValue::Sentence(s) => format!("Sentence {}", sent(s)),
        RValue::Task(s, b) => format!("Task ${}$ {}", nums(b), sent(s)),
    }
}
