//! C06 / C07: term-construction histories under a simulator-owned hasher seam.
//!
//! One run = one description `D`, realised K times under independently drawn realisation
//! schedules, plus near-miss descriptions realised too; invariants are evaluated after every
//! realisation and over the whole pool at the end. The oracle is the canonical-form reference
//! model (`refmodel::abstract_term`), which never calls `Term::eq` / `Term::hash`.

use crate::describe::*;
use crate::formats::*;
use crate::hashers::*;
use crate::prng::{Choices, Digest};
use crate::realise::*;
use crate::refmodel::*;
use crate::report::*;
use narsese::api::NarseseValue;
use narsese::enum_narsese::{Budget, Narsese, Sentence, Stamp, Task, Term, Truth};
use std::collections::{HashMap, HashSet};

pub const TAPE_MODES: [&str; 4] = ["shared", "collide", "fresh", "mixed"];

#[cfg(narsese_verif)]
fn install_tape(mode: usize, seed: u64) {
    use narsese::verif_hooks::{install_tape, TapeMode};
    let m = match mode {
        0 => TapeMode::Shared,
        1 => TapeMode::Collide,
        2 => TapeMode::Fresh,
        _ => TapeMode::Mixed,
    };
    install_tape(m, seed);
}
#[cfg(not(narsese_verif))]
fn install_tape(_mode: usize, _seed: u64) {}

#[cfg(narsese_verif)]
fn tape_stats() -> (u64, u64) {
    narsese::verif_hooks::tape_stats()
}
#[cfg(not(narsese_verif))]
fn tape_stats() -> (u64, u64) {
    (0, 0)
}

pub const HOOKED: bool = cfg!(narsese_verif);

struct Entry {
    label: String,
    /// index of the description this value realises (0 = D, 1.. = near misses)
    desc: usize,
    term: Term,
    r: RTerm,
    layout: u64,
}

#[derive(Default, Clone)]
pub struct TermsRunStats {
    pub rstats: RStats,
    pub tape_mode: usize,
    pub nontrivial: bool,
    pub nested_unordered: bool,
    pub trace_digest: u64,
    pub layouts: Vec<u64>,
    pub twin_pairs: u64,
    pub twin_pairs_manifested: u64,
    pub unequal_pairs: u64,
    pub eq_evals: u64,
    pub hash_evals: u64,
    pub container_ops: u64,
    pub physical_duplicates: u64,
    pub keys_handed_out: u64,
    pub desc_nodes: u64,
    pub near_miss_labels: Vec<&'static str>,
    pub aborted: bool,
    pub coop_runs: u64,
    pub coop_yields: u64,
    pub coop_switches: u64,
    pub coop_stalled: u64,
}

pub struct TermsReport {
    pub violations: Vec<Violation>,
    pub log: Log,
    pub stats: TermsRunStats,
}

fn show_physical(t: &Term) -> String {
    guarded(|| ENUM_FORMATS[0].format_term(t)).unwrap_or_else(|| "<unprintable>".into())
}

fn physical_duplicates(t: &Term) -> u64 {
    use Term::*;
    let mut n = 0;
    match t {
        SetExtension(s) | SetIntension(s) | IntersectionExtension(s) | IntersectionIntension(s)
        | Conjunction(s) | Disjunction(s) | ConjunctionParallel(s) => {
            let distinct: std::collections::BTreeSet<RTerm> = s.iter().map(abstract_term).collect();
            n += (s.len() - distinct.len()) as u64;
            for x in s.iter() {
                n += physical_duplicates(x);
            }
        }
        Product(v) | ConjunctionSequential(v) | ImageExtension(_, v) | ImageIntension(_, v) => {
            for x in v {
                n += physical_duplicates(x);
            }
        }
        Negation(a) => n += physical_duplicates(a),
        DifferenceExtension(a, b) | DifferenceIntension(a, b) | Inheritance(a, b)
        | Similarity(a, b) | Implication(a, b) | Equivalence(a, b) | ImplicationPredictive(a, b)
        | ImplicationConcurrent(a, b) | ImplicationRetrospective(a, b)
        | EquivalencePredictive(a, b) | EquivalenceConcurrent(a, b) => {
            n += physical_duplicates(a) + physical_duplicates(b)
        }
        _ => {}
    }
    n
}

struct Checker<'a> {
    pool: &'a [Entry],
    key: u64,
    stats: &'a mut TermsRunStats,
    log: &'a mut Log,
    violations: &'a mut Vec<Violation>,
}

impl Checker<'_> {
    fn violate(&mut self, prop: &'static str, kind: &str, msg: String) {
        self.log.d.str(kind);
        // keep the first violation of each (property, kind)
        if self.violations.iter().any(|v| v.prop == prop && v.kind == kind) {
            return;
        }
        self.log.line(|| format!("!! {prop} {kind}: {msg}"));
        self.violations.push(Violation {
            prop,
            kind: kind.to_string(),
            message: msg,
        });
    }

    /// C06 + C07 on one ordered pair of pool entries
    fn pair(&mut self, i: usize, j: usize, phase: &str) -> bool {
        let (a, b) = (&self.pool[i], &self.pool[j]);
        let expected = a.r == b.r;
        let e1 = a.term == b.term;
        let e2 = b.term == a.term;
        #[allow(clippy::nonminimal_bool)]
        let e3 = !(a.term != b.term);
        self.stats.eq_evals += 3;
        self.log.d.u64((e1 as u64) | (e2 as u64) << 1 | (e3 as u64) << 2 | (expected as u64) << 3);
        let ctx = |p: &[Entry]| {
            format!(
                "[{phase}] a={} `{}`  b={} `{}`  (canonical a: {} ; canonical b: {})",
                p[i].label,
                show_physical(&p[i].term),
                p[j].label,
                show_physical(&p[j].term),
                show_rterm(&p[i].r),
                show_rterm(&p[j].r)
            )
        };
        if e1 != e2 {
            let m = format!("a==b is {e1} but b==a is {e2} {}", ctx(self.pool));
            self.violate("C06", "eq-asymmetric", m);
        }
        if e1 != e3 {
            let m = format!("a==b is {e1} but !(a!=b) is {e3} {}", ctx(self.pool));
            self.violate("C06", "eq-ne-inconsistent", m);
        }
        if e1 != expected {
            if expected {
                let m = format!("same Narsese term compares unequal {}", ctx(self.pool));
                self.violate("C06", "same-term-compares-unequal", m);
            } else {
                let m = format!("different Narsese terms compare equal {}", ctx(self.pool));
                self.violate("C06", "different-terms-compare-equal", m);
            }
        }
        if e1 && e2 && !expected {
            // == is too generous here (that is C06's finding); the Hash/Eq contract of C07 is
            // stated on what compares equal, so these two must hash equally as well
            let (ha, hb) = (hash3(&a.term, self.key), hash3(&b.term, self.key));
            self.stats.hash_evals += 6;
            if ha != hb {
                let m = format!("the terms compare equal (==) but hash differently {}", ctx(self.pool));
                self.violate("C07", "terms-comparing-equal-hash-differently", m);
            }
        }
        if expected {
            // C07: premise decided by the oracle, not by Term::eq (which may itself be broken)
            let ha = hash3(&a.term, self.key);
            let hb = hash3(&b.term, self.key);
            self.stats.hash_evals += 6;
            for h in 0..3 {
                self.log.d.u64(ha[h] ^ hb[h]);
                if ha[h] != hb[h] {
                    let m = format!(
                        "hash differs under {} ({:#x} vs {:#x}) {}",
                        HASHER_NAMES[h],
                        ha[h],
                        hb[h],
                        ctx(self.pool)
                    );
                    self.violate("C07", "equal-terms-hash-differently", m);
                    break;
                }
            }
            // through the derive on the generic value wrapper
            let na: NarseseValue<Term, (), ()> = NarseseValue::Term(a.term.clone());
            let nb: NarseseValue<Term, (), ()> = NarseseValue::Term(b.term.clone());
            if hash3(&na, self.key) != hash3(&nb, self.key) {
                let m = format!("hash of NarseseValue::Term differs {}", ctx(self.pool));
                self.violate("C07", "wrapped-hash-differs", m);
            }
            self.stats.hash_evals += 6;
            // containers need Eq as well: only where the real `==` says equal too, so that a
            // pure equality defect is never blamed on hashing
            if e1 && e2 {
                self.containers(i, j, phase);
            }
        }
        e1
    }

    fn containers(&mut self, i: usize, j: usize, phase: &str) {
        let (a, b) = (&self.pool[i].term, &self.pool[j].term);
        let labels = format!(
            "[{phase}] a={} `{}`  b={} `{}`",
            self.pool[i].label,
            show_physical(a),
            self.pool[j].label,
            show_physical(b)
        );
        macro_rules! with_build {
            ($build:expr, $name:expr) => {{
                let mut set: HashSet<Term, _> = HashSet::with_hasher($build);
                set.insert(a.clone());
                let found = set.contains(b);
                let fresh = set.insert(b.clone());
                let len = set.len();
                let mut map: HashMap<Term, u32, _> = HashMap::with_hasher($build);
                map.insert(a.clone(), 7);
                let got = map.get(b).copied();
                self.stats.container_ops += 5;
                self.log.d.u64((found as u64) | (fresh as u64) << 1 | (len as u64) << 2);
                if !found {
                    self.violate("C07", "hash-set-lookup-misses-equal-term", format!("HashSet<{}>{{a}}.contains(b) is false {labels}", $name));
                } else if fresh || len != 1 {
                    self.violate("C07", "hash-set-keeps-equal-term-twice", format!("HashSet<{}>: inserting b after a gives len {len} {labels}", $name));
                }
                if got != Some(7) {
                    self.violate("C07", "hash-map-lookup-misses-equal-key", format!("HashMap<{}>: get(b) after insert(a) is {got:?} {labels}", $name));
                }
            }};
        }
        with_build!(SipBuild, HASHER_NAMES[0]);
        with_build!(KeyedBuild(self.key), HASHER_NAMES[2]);
    }
}

pub fn run_terms(ch: &mut Choices, verbose: bool) -> TermsReport {
    let mut log = Log::new(verbose);
    let mut stats = TermsRunStats::default();
    let mut violations: Vec<Violation> = vec![];

    // ---- swarm parameters (all from the choice sequence) ----
    let tape_mode = ch.weighted(&[20, 30, 30, 20]);
    let tape_seed = ch.bits() as u64;
    // "wide" runs: shallow descriptions with large unordered containers (9-16 elements)
    let wide = ch.chance(1, 6);
    // "deep" runs: narrow descriptions nested 5-22 levels
    let deep = !wide && ch.chance(1, 8);
    // "huge" runs: one flat container with 60-300 distinct elements, few realisations
    let huge = !wide && !deep && ch.chance(1, 40);
    let gp = if huge {
        GenParams {
            max_depth: 1,
            max_fan: ch.range(60, 300),
            n_names: 14,
            unordered_bias: 3,
            exotic: false,
            stop_den: 3,
            cjk_names: false,
            many_names: true,
            domain_names: false,
        }
    } else if deep {
        GenParams {
            max_depth: ch.range(5, 22),
            max_fan: 2,
            n_names: ch.range(2, 4),
            unordered_bias: ch.choose(4),
            exotic: false,
            stop_den: 8,
            cjk_names: false,
            many_names: false,
            domain_names: false,
        }
    } else if wide {
        GenParams {
            max_depth: ch.range(1, 2),
            max_fan: ch.range(9, 16),
            n_names: ch.range(8, 14),
            unordered_bias: ch.choose(4),
            exotic: false,
            stop_den: 3,
            cjk_names: false,
            many_names: false,
            domain_names: false,
        }
    } else {
        GenParams {
            max_depth: ch.range(1, 4),
            max_fan: ch.range(2, 5),
            n_names: ch.range(2, 6),
            unordered_bias: ch.choose(4),
            exotic: ch.chance(1, 5),
            stop_den: 3,
            cjk_names: false,
            many_names: false,
            domain_names: false,
        }
    };
    let gp = GenParams { domain_names: !huge && ch.chance(1, 4), ..gp };
    // caller threads: in "hop" runs some values are built, hashed or compared on another thread
    // (one at a time: the simulated thread that runs next is a decision of the schedule)
    let hops = ch.chance(1, 5);
    // mutation histories: hash / store a value, change it in place, compare with a fresh build
    let mutate_phase = ch.chance(1, 3);
    // concurrent callers under the cooperative scheduler (hooked build only)
    let coop_phase = ch.chance(1, 12) && HOOKED;
    let coop_seed = ch.bits() as u64;
    let churn: u32 = if ch.chance(1, 12) { [200u32, 1500, 6000][ch.choose(3) as usize] } else { 0 };
    // (very rarely a churn large enough to overflow any table of up to a million names)
    let churn: u32 = if ch.chance(1, 4000) { 1_200_000 } else { churn };
    let rp = RealiseParams {
        reorder: !ch.chance(1, 10),
        duplicates: ch.chance(1, 2),
        capacity: !ch.chance(1, 3),
        wrap: ch.choose(4),
        text_routes: !ch.chance(1, 4),
    };
    let k_real = if huge { 2 } else { ch.range(2, 4) };
    let m_near = if huge { ch.range(0, 1) } else { ch.range(0, 3) };
    let outer_key = ((ch.bits() as u64) << 16) ^ 0xabcd;
    stats.tape_mode = tape_mode;
    install_tape(tape_mode, tape_seed);
    log.d.u64(tape_mode as u64);
    log.d.u64(tape_seed);
    log.line(|| {
        format!(
            "hasher key tape: mode={} seed={tape_seed:#x} (hooked build: {HOOKED}); gen {gp:?}; realise {rp:?}; K={k_real} M={m_near} caller-thread hops={hops}",
            TAPE_MODES[tape_mode]
        )
    });

    // ---- workload ----
    let d0 = gen_desc(ch, &gp, 0, false);
    // half of the huge containers sit inside another unordered compound or a symmetric statement
    // (only then does their hash decide a comparison)
    let d0 = if huge && ch.chance(1, 2) {
        let extra = Desc::Atom(A_WORD, "outer".into());
        match ch.choose(3) {
            0 => Desc::Set(ch.choose(N_SET as u32) as u8, vec![d0, extra]),
            1 => Desc::Sym(ch.choose(N_SYM as u32) as u8, Box::new(d0), Box::new(extra)),
            _ => Desc::Set(S_SET_EXT, vec![Desc::Seq(Q_PRODUCT, vec![d0, extra.clone()]), extra]),
        }
    } else {
        d0
    };
    stats.desc_nodes = size(&d0) as u64;
    let c0 = canon(&d0);
    stats.nested_unordered = has_nested_unordered(&c0, false);
    log.line(|| format!("D0 = {}   (as listed: {:?})", show_rterm(&c0), d0));
    let mut descs: Vec<Desc> = vec![d0.clone()];

    let mut pool: Vec<Entry> = vec![];
    let mut rstats = RStats::default();

    // realisation phase: a panic here (e.g. in a route) aborts the run without a verdict
    let realised = guarded(|| {
        let mut pool: Vec<Entry> = vec![];
        let add = |desc_idx: usize,
                       d: &Desc,
                       n: u32,
                       ch: &mut Choices,
                       rstats: &mut RStats,
                       log: &mut Log,
                       pool: &mut Vec<Entry>| {
            for r in 0..n {
                if ch.chance(1, 3) {
                    history_noise(ch, rstats);
                }
                let term = if hops && ch.chance(1, 3) {
                    // built on a fresh caller thread, with its own slice of the key tape
                    rstats.thread_hops += 1;
                    let tseed = tape_seed ^ (0x7468_7264 + pool.len() as u64 * 0x9E37);
                    let built = std::thread::scope(|sc| {
                        sc.spawn(|| {
                            install_tape(tape_mode, tseed);
                            guarded(|| realise(d, ch, rstats, &rp))
                        })
                        .join()
                    });
                    match built {
                        Ok(Some(t)) => t,
                        _ => panic!("realisation on a caller thread panicked"),
                    }
                } else {
                    realise(d, ch, rstats, &rp)
                };
                let rt = abstract_term(&term);
                let (layout, _) = layout_of(&term);
                let label = format!("D{desc_idx}.r{r}");
                log.d.u64(layout);
                log.line(|| format!("realise {label}: `{}` layout={layout:#x}", show_physical(&term)));
                pool.push(Entry {
                    label,
                    desc: desc_idx,
                    term,
                    r: rt,
                    layout,
                });
            }
        };
        add(0, &d0, k_real, ch, &mut rstats, &mut log, &mut pool);
        let mut near_labels = vec![];
        for m in 0..m_near {
            if let Some((dm, label, at)) = near_miss(&d0, ch) {
                log.line(|| format!("D{} = near miss of D0 by {label} at node {at}: {}", m + 1, show_rterm(&canon(&dm))));
                near_labels.push(label);
                let n = ch.range(1, 2);
                add(descs_len_plus(m as usize), &dm, n, ch, &mut rstats, &mut log, &mut pool);
                descs.push(dm);
            }
        }
        // ---- concurrent-caller runs also get a pair of twins wrapped in a long chain of unary /
        //      ordered compounds: several threads are then DEEP inside Hash / PartialEq at once ----
        if coop_phase {
            let depth = [30usize, 70, 150][ch.choose(3) as usize];
            let core = Desc::Set(S_CONJ, vec![Desc::Atom(A_WORD, "A".into()), Desc::Atom(A_WORD, "B".into()), Desc::Sym(Y_SIM, Box::new(Desc::Atom(A_WORD, "C".into())), Box::new(Desc::Atom(A_WORD, "D".into())))]);
            let mut chain = core;
            for level in 0..depth {
                chain = match level % 3 {
                    0 => Desc::Neg(Box::new(chain)),
                    1 => Desc::Seq(Q_PRODUCT, vec![chain]),
                    _ => Desc::Pair(P_INH, Box::new(chain), Box::new(Desc::Atom(A_WORD, "Z".into()))),
                };
            }
            log.line(|| format!("D80 = a {depth}-level chain around (&&, A, B, <C <-> D>)"));
            let chain_rp = RealiseParams { wrap: 0, text_routes: false, ..rp };
            for r in 0..2 {
                let term = realise(&chain, ch, &mut rstats, &chain_rp);
                let rt = abstract_term(&term);
                let (layout, _) = layout_of(&term);
                log.d.u64(layout);
                pool.push(Entry { label: format!("D80.r{r}"), desc: 80, term, r: rt, layout });
            }
            descs.push(chain);
        }
        // ---- mutation histories: a value that was already hashed / stored is changed in place
        //      through the public API, and must then behave exactly like a freshly built value of
        //      the new description (nothing remembered from before may survive the change) ----
        if mutate_phase && !pool.is_empty() {
            let src = ch.choose(k_real.min(pool.len() as u32)) as usize;
            let which = ch.choose(3);
            if let Some((d_new, label)) = mutate_desc(&d0, which, ch) {
                let mut m = pool[src].term.clone();
                // warm whatever could be remembered: hash it, store it, compare it
                let _ = hash3(&m, outer_key);
                let mut warm: HashSet<Term, SipBuild> = HashSet::with_hasher(SipBuild);
                warm.insert(m.clone());
                let _ = m == pool[src].term;
                let applied = match which {
                    0 => {
                        // push a batch containing a new element (twice) and differently realised
                        // copies of elements that are already there
                        let (extra, dups) = match (&d0, &d_new) {
                            (Desc::Set(_, old), Desc::Set(_, new)) | (Desc::Seq(_, old), Desc::Seq(_, new)) => (new[old.len()..].to_vec(), old.clone()),
                            _ => (vec![], vec![]),
                        };
                        let mut batch: Vec<Term> = vec![];
                        let is_set = matches!(d0, Desc::Set(..));
                        if is_set && !dups.is_empty() && ch.chance(2, 3) {
                            let i = ch.choose(dups.len() as u32) as usize;
                            batch.push(realise(&dups[i], ch, &mut rstats, &rp));
                        }
                        for x in &extra {
                            batch.push(realise(x, ch, &mut rstats, &rp));
                        }
                        if is_set && !extra.is_empty() {
                            batch.push(realise(&extra[0], ch, &mut rstats, &rp));
                        }
                        m.push_components(batch).is_ok()
                    }
                    1 => rename_first_atom(&mut m, "renamed"),
                    _ => swap_root_operands(&mut m),
                };
                if applied {
                    rstats.mutations += 1;
                    let rt = abstract_term(&m);
                    let (layout, _) = layout_of(&m);
                    let label_m = format!("D0.r{src}.mutated[{label}]");
                    log.d.u64(layout);
                    log.line(|| format!("mutate in place {label_m}: `{}`", show_physical(&m)));
                    pool.push(Entry { label: label_m, desc: 90, term: m, r: rt, layout });
                    // and the same description built from scratch
                    log.line(|| format!("D90 = D0 after {label}: {}", show_rterm(&canon(&d_new))));
                    add(90, &d_new, 1, ch, &mut rstats, &mut log, &mut pool);
                    descs.push(d_new);
                }
                drop(warm);
            }
        }
        (pool, near_labels)
    });
    match realised {
        Some((p, labels)) => {
            pool = p;
            stats.near_miss_labels = labels;
        }
        None => {
            stats.aborted = true;
            log.line(|| "run aborted: panic while realising (no verdict)".to_string());
        }
    }
    stats.rstats = rstats;

    // a table filled NOW (right after building) and probed at the very end of the run, after
    // everything else the run does in between (vocabulary churn, thread hops, mutations of clones,
    // thousands of other hashes): a stored key must still be found by an equal term later
    let early_table: Option<(HashSet<Term, SipBuild>, HashMap<Term, usize, FnvBuild>)> = if stats.aborted {
        None
    } else {
        guarded(|| {
            let mut set: HashSet<Term, SipBuild> = HashSet::with_hasher(SipBuild);
            let mut map: HashMap<Term, usize, FnvBuild> = HashMap::with_hasher(FnvBuild);
            for (i, e) in pool.iter().enumerate() {
                set.insert(e.term.clone());
                map.entry(e.term.clone()).or_insert(i);
            }
            (set, map)
        })
    };
    if !stats.aborted && churn > 0 {
        // vocabulary churn: many never-seen atom names are hashed and stored between building the
        // values and asking about them (anything keyed by names that is bounded, evicted or
        // renumbered moves on)
        let _ = guarded(|| {
            let mut scratch: HashSet<Term, SipBuild> = HashSet::with_hasher(SipBuild);
            for i in 0..churn {
                let t = match i % 3 {
                    0 => Term::new_word(format!("v{outer_key:x}n{i}")),
                    1 => Term::new_variable_independent(format!("v{outer_key:x}n{i}")),
                    _ => Term::new_operator(format!("v{outer_key:x}n{i}")),
                };
                if churn > 100_000 {
                    // the very large churn only hashes the names (bounded memory)
                    std::hint::black_box(hash3(&t, outer_key));
                } else {
                    scratch.insert(t);
                }
            }
            std::hint::black_box(scratch.len())
        });
        stats.rstats.vocabulary_churn += churn as u64;
        log.line(|| format!("vocabulary churn: {churn} fresh atom names hashed and stored"));
    }
    if !stats.aborted {
        // ---- invariants ----
        let checked = guarded(|| {
            let n = pool.len();
            let mut c = Checker {
                pool: &pool,
                key: outer_key,
                stats: &mut stats,
                log: &mut log,
                violations: &mut violations,
            };
            // all ordered pairs incl. reflexive
            let mut matrix = vec![vec![false; n]; n];
            for i in 0..n {
                for j in 0..n {
                    matrix[i][j] = c.pair(i, j, "pool");
                }
                if !matrix[i][i] {
                    let m = format!("a==a is false for {} `{}`", c.pool[i].label, show_physical(&c.pool[i].term));
                    c.violate("C06", "eq-irreflexive", m);
                }
            }
            // transitivity on every triple
            for i in 0..n {
                for j in 0..n {
                    if !matrix[i][j] {
                        continue;
                    }
                    for k in 0..n {
                        if matrix[j][k] && !matrix[i][k] {
                            let m = format!(
                                "a==b and b==c but a!=c: a={} b={} c={}",
                                c.pool[i].label, c.pool[j].label, c.pool[k].label
                            );
                            c.violate("C06", "eq-intransitive", m);
                        }
                    }
                }
            }
            // one table holding every pool value: exactly one entry per distinct term, and every
            // pool value finds an entry that denotes the same term (only meaningful if == itself
            // answered correctly everywhere: an equality defect is C06's, not hashing's)
            let eq_all_correct = (0..n).all(|i| (0..n).all(|j| matrix[i][j] == (c.pool[i].r == c.pool[j].r)));
            if eq_all_correct && n > 0 {
                let classes: std::collections::BTreeSet<&RTerm> = c.pool.iter().map(|e| &e.r).collect();
                macro_rules! table_check {
                    ($build:expr, $name:expr) => {{
                        let mut table: HashSet<Term, _> = HashSet::with_hasher($build);
                        for e in c.pool.iter() {
                            table.insert(e.term.clone());
                        }
                        c.stats.container_ops += n as u64;
                        c.log.d.u64(table.len() as u64);
                        if table.len() != classes.len() {
                            let m = format!("a HashSet<{}> filled with the {} pool values ({} distinct terms) holds {} entries", $name, n, classes.len(), table.len());
                            c.violate("C07", "hash-table-entry-count-differs-from-distinct-terms", m);
                        }
                        for e in c.pool.iter() {
                            c.stats.container_ops += 1;
                            match table.get(&e.term) {
                                Some(hit) if abstract_term(hit) == e.r => {}
                                Some(hit) => {
                                    let m = format!("HashSet<{}>::get({} `{}`) returned a different term `{}`", $name, e.label, show_physical(&e.term), show_physical(hit));
                                    c.violate("C07", "hash-table-returns-different-term", m);
                                }
                                None => {
                                    let m = format!("a HashSet<{}> filled with all pool values does not contain {} `{}`", $name, e.label, show_physical(&e.term));
                                    c.violate("C07", "hash-table-misses-inserted-term", m);
                                }
                            }
                        }
                    }};
                }
                table_check!(SipBuild, HASHER_NAMES[0]);
                table_check!(FnvBuild, HASHER_NAMES[1]);
            }
            (matrix, n)
        });
        match checked {
            None => {
                violations.push(Violation {
                    prop: "C06",
                    kind: "panic-while-comparing-or-hashing".into(),
                    message: "a panic escaped from ==, != or hash on constructed terms".into(),
                });
            }
            Some((matrix, n)) => {
                // ---- stability: same questions again, after the world moved on ----
                let again = guarded(|| {
                    // grow an unrelated set (allocator + key tape move on)
                    let mut noise = RStats::default();
                    let filler: Vec<Term> = (0..40).map(Term::new_interval).collect();
                    let big = Term::new_set_extension(filler);
                    noise.noise_sets += 1;
                    std::hint::black_box(&big);
                    let clones: Vec<Term> = pool.iter().map(|e| e.term.clone()).collect();
                    let mut bad: Option<(usize, usize, &'static str)> = None;
                    let mut evals = 0u64;
                    let mut hash_evals = 0u64;
                    for i in 0..n {
                        for j in 0..n {
                            evals += 2;
                            if (pool[i].term == pool[j].term) != matrix[i][j] {
                                bad.get_or_insert((i, j, "second evaluation"));
                            }
                            if (clones[i] == clones[j]) != matrix[i][j] {
                                bad.get_or_insert((i, j, "evaluation on clones"));
                            }
                        }
                    }
                    // hash stability: same value, same hasher, twice; and its clone
                    let mut hbad: Option<(usize, &'static str)> = None;
                    for i in 0..n {
                        let h1 = hash3(&pool[i].term, outer_key);
                        let h2 = hash3(&pool[i].term, outer_key);
                        let h3 = hash3(&clones[i], outer_key);
                        hash_evals += 9;
                        if h1 != h2 {
                            hbad.get_or_insert((i, "hashing the same value twice"));
                        }
                        if h1 != h3 {
                            hbad.get_or_insert((i, "hashing a clone"));
                        }
                    }
                    (bad, hbad, evals, hash_evals, noise)
                });
                match again {
                    None => violations.push(Violation {
                        prop: "C06",
                        kind: "panic-while-comparing-or-hashing".into(),
                        message: "a panic escaped from ==, clone or hash during the stability pass".into(),
                    }),
                    Some((bad, hbad, evals, hash_evals, noise)) => {
                        stats.eq_evals += evals;
                        stats.hash_evals += hash_evals;
                        stats.rstats.add(&noise);
                        log.d.u64(bad.is_some() as u64 | (hbad.is_some() as u64) << 1);
                        if let Some((i, j, how)) = bad {
                            let msg = format!(
                                "a==b answered {} first and {} on {how}: a={} `{}` b={} `{}`",
                                matrix[i][j],
                                !matrix[i][j],
                                pool[i].label,
                                show_physical(&pool[i].term),
                                pool[j].label,
                                show_physical(&pool[j].term)
                            );
                            log.line(|| format!("!! C06 eq-unstable: {msg}"));
                            violations.push(Violation {
                                prop: "C06",
                                kind: "eq-unstable".into(),
                                message: msg,
                            });
                        }
                        if let Some((i, how)) = hbad {
                            let msg = format!(
                                "hash changed on {how}: {} `{}`",
                                pool[i].label,
                                show_physical(&pool[i].term)
                            );
                            log.line(|| format!("!! C07 hash-unstable: {msg}"));
                            violations.push(Violation {
                                prop: "C07",
                                kind: "hash-unstable".into(),
                                message: msg,
                            });
                        }
                    }
                }
                // ---- caller threads: the same questions asked on another thread ----
                if hops {
                    let remote = std::thread::scope(|sc| {
                        sc.spawn(|| {
                            guarded(|| {
                                let hashes: Vec<[u64; 3]> = pool.iter().map(|e| hash3(&e.term, outer_key)).collect();
                                let mut eqs = vec![vec![false; n]; n];
                                for i in 0..n {
                                    for j in 0..n {
                                        eqs[i][j] = pool[i].term == pool[j].term;
                                    }
                                }
                                // a container filled on this thread, probed by the caller afterwards
                                let mut set: HashSet<Term, SipBuild> = HashSet::with_hasher(SipBuild);
                                for e in pool.iter() {
                                    set.insert(e.term.clone());
                                }
                                (hashes, eqs, set)
                            })
                        })
                        .join()
                    });
                    stats.rstats.thread_hops += 1;
                    match remote {
                        Ok(Some((hashes, eqs, set))) => {
                            stats.hash_evals += 3 * n as u64;
                            stats.eq_evals += (n * n) as u64;
                            for i in 0..n {
                                let here = hash3(&pool[i].term, outer_key);
                                log.d.u64(here[0] ^ hashes[i][0]);
                                if here != hashes[i] && !violations.iter().any(|v| v.kind == "hash-depends-on-thread") {
                                    let msg = format!("the same value hashes differently on another thread under the same hasher: {} `{}`", pool[i].label, show_physical(&pool[i].term));
                                    log.line(|| format!("!! C07 hash-depends-on-thread: {msg}"));
                                    violations.push(Violation { prop: "C07", kind: "hash-depends-on-thread".into(), message: msg });
                                }
                                // found again by an equal term, in a table filled on the other thread
                                stats.container_ops += 1;
                                if matrix[i][i] && !set.contains(&pool[i].term) && !violations.iter().any(|v| v.kind == "hash-set-filled-on-other-thread-misses-term") {
                                    let msg = format!("a HashSet filled on another thread does not contain {} `{}` although an equal term was inserted", pool[i].label, show_physical(&pool[i].term));
                                    log.line(|| format!("!! C07 hash-set-filled-on-other-thread-misses-term: {msg}"));
                                    violations.push(Violation { prop: "C07", kind: "hash-set-filled-on-other-thread-misses-term".into(), message: msg });
                                }
                                for j in 0..n {
                                    if eqs[i][j] != matrix[i][j] && !violations.iter().any(|v| v.kind == "eq-depends-on-thread") {
                                        let msg = format!(
                                            "a==b is {} on the caller thread and {} on another thread: a={} `{}` b={} `{}`",
                                            matrix[i][j], eqs[i][j], pool[i].label, show_physical(&pool[i].term), pool[j].label, show_physical(&pool[j].term)
                                        );
                                        log.line(|| format!("!! C06 eq-depends-on-thread: {msg}"));
                                        violations.push(Violation { prop: "C06", kind: "eq-depends-on-thread".into(), message: msg });
                                    }
                                }
                            }
                        }
                        _ => violations.push(Violation {
                            prop: "C06",
                            kind: "panic-while-comparing-or-hashing".into(),
                            message: "a panic escaped from ==, clone or hash on another thread".into(),
                        }),
                    }
                }
                // ---- concurrent callers: several threads hash and compare the shared values at the
                //      same time; the cooperative scheduler switches between them inside
                //      `Hash for Term` / `PartialEq for Term` (yield sites 4, 5) ----
                if coop_phase && n >= 2 {
                    let t_n = 2 + (coop_seed % 3) as usize;
                    let coop = crate::coop::Coop::new(t_n, coop_seed, [2u64, 8, 32, 128][(coop_seed >> 8) as usize % 4]);
                    let pool_ref = &pool;
                    let bodies: Vec<Box<dyn FnOnce() -> (Vec<[u64; 3]>, Vec<Vec<bool>>) + Send + '_>> = (0..t_n)
                        .map(|t| {
                            Box::new(move || {
                                // every thread asks everything, starting at a different place
                                let mut hashes = vec![[0u64; 3]; n];
                                let mut eqs = vec![vec![false; n]; n];
                                for step in 0..n {
                                    let i = (step + t) % n;
                                    hashes[i] = hash3(&pool_ref[i].term, outer_key);
                                    for j in 0..n {
                                        eqs[i][j] = pool_ref[i].term == pool_ref[j].term;
                                        // the same question on a short-lived copy: freed heap
                                        // addresses are reused by the next copy (of another value)
                                        if (i + j + t) % 3 == 0 {
                                            let copy = pool_ref[(i + j) % n].term.clone();
                                            let on_copy = copy == pool_ref[j].term;
                                            drop(copy);
                                            if on_copy != (pool_ref[(i + j) % n].r == pool_ref[j].r) {
                                                // remembered as a disagreement on that pair
                                                eqs[(i + j) % n][j] = on_copy;
                                            }
                                        }
                                    }
                                }
                                (hashes, eqs)
                            }) as Box<dyn FnOnce() -> (Vec<[u64; 3]>, Vec<Vec<bool>>) + Send + '_>
                        })
                        .collect();
                    let results = crate::coop::run_threads(&coop, 0b110000, bodies);
                    let cs = coop.stats();
                    stats.coop_runs += 1;
                    stats.coop_yields += cs.yields;
                    stats.coop_switches += cs.switches;
                    stats.coop_stalled += cs.stalled as u64;
                    log.d.u64(cs.yields);
                    log.d.u64(cs.switches);
                    log.line(|| format!("concurrent callers: {t_n} threads, {} yield points in Hash/PartialEq, {} switches, stalled={}", cs.yields, cs.switches, cs.stalled));
                    if !cs.stalled {
                        for (t, r) in results.iter().enumerate() {
                            match r {
                                None => violations.push(Violation { prop: "C06", kind: "panic-while-comparing-or-hashing".into(), message: format!("caller thread {t} panicked while comparing / hashing concurrently") }),
                                Some((hashes, eqs)) => {
                                    stats.hash_evals += 3 * n as u64;
                                    stats.eq_evals += (n * n) as u64;
                                    for i in 0..n {
                                        let here = hash3(&pool[i].term, outer_key);
                                        if here != hashes[i] && !violations.iter().any(|v| v.kind == "hash-depends-on-concurrent-callers") {
                                            let msg = format!("with {t_n} threads hashing at the same time, thread {t} got another hash for {} `{}` than a caller on its own", pool[i].label, show_physical(&pool[i].term));
                                            log.line(|| format!("!! C07 hash-depends-on-concurrent-callers: {msg}"));
                                            violations.push(Violation { prop: "C07", kind: "hash-depends-on-concurrent-callers".into(), message: msg });
                                        }
                                        for j in 0..n {
                                            if eqs[i][j] != matrix[i][j] && !violations.iter().any(|v| v.kind == "eq-depends-on-concurrent-callers") {
                                                let msg = format!(
                                                    "with {t_n} threads comparing at the same time, thread {t} got a==b {} where a caller on its own gets {}: a={} `{}` b={} `{}`",
                                                    eqs[i][j], matrix[i][j], pool[i].label, show_physical(&pool[i].term), pool[j].label, show_physical(&pool[j].term)
                                                );
                                                log.line(|| format!("!! C06 eq-depends-on-concurrent-callers: {msg}"));
                                                violations.push(Violation { prop: "C06", kind: "eq-depends-on-concurrent-callers".into(), message: msg });
                                            }
                                        }
                                    }
                                }
                            }
                        }
                    }
                }
                // ---- derived equalities: Sentence / Task / Narsese around the terms ----
                let derived = guarded(|| {
                    let mut out: Vec<Violation> = vec![];
                    let mut evals = 0;
                    let pairs = n.min(6);
                    for i in 0..pairs {
                        for j in 0..n {
                            let expected = pool[i].r == pool[j].r;
                            let mk = |t: &Term, q: bool| -> Sentence {
                                if q {
                                    Sentence::new_question(t.clone(), Stamp::Fixed(-3))
                                } else {
                                    Sentence::new_judgement(t.clone(), Truth::Double(1.0, 0.9), Stamp::Present)
                                }
                            };
                            let q = (i + j) % 2 == 0;
                            let (sa, sb) = (mk(&pool[i].term, q), mk(&pool[j].term, q));
                            let es = sa == sb;
                            let ta = Task::new(sa.clone(), Budget::Triple(0.5, 0.25, 0.125));
                            let tb = Task::new(sb.clone(), Budget::Triple(0.5, 0.25, 0.125));
                            let et = ta == tb;
                            let en = Narsese::Term(pool[i].term.clone()) == Narsese::Term(pool[j].term.clone());
                            let ens = Narsese::Sentence(sa) == Narsese::Sentence(sb);
                            let ent = Narsese::Task(ta) == Narsese::Task(tb);
                            evals += 5;
                            for (what, got) in [("Sentence", es), ("Task", et), ("Narsese::Term", en), ("Narsese::Sentence", ens), ("Narsese::Task", ent)] {
                                if got != expected && out.is_empty() {
                                    out.push(Violation {
                                        prop: "C06",
                                        kind: "derived-equality-disagrees".into(),
                                        message: format!(
                                            "{what} built around a={} `{}` and b={} `{}` with identical truth/stamp/budget: == is {got}, terms denote {} term",
                                            pool[i].label,
                                            show_physical(&pool[i].term),
                                            pool[j].label,
                                            show_physical(&pool[j].term),
                                            if expected { "the same" } else { "a different" }
                                        ),
                                    });
                                }
                            }
                        }
                    }
                    (out, evals)
                });
                match derived {
                    None => violations.push(Violation {
                        prop: "C06",
                        kind: "panic-while-comparing-or-hashing".into(),
                        message: "a panic escaped from a derived == (Sentence/Task/Narsese)".into(),
                    }),
                    Some((out, evals)) => {
                        stats.eq_evals += evals;
                        log.d.u64(out.len() as u64);
                        for v in out {
                            // a derived disagreement is only news if the term-level answer was right
                            if !violations.iter().any(|x| x.prop == "C06") {
                                log.line(|| format!("!! C06 {}: {}", v.kind, v.message));
                                violations.push(v);
                            }
                        }
                    }
                }
            }
        }

        // ---- the table filled at the beginning of the run, probed now ----
        if let Some((set, map)) = &early_table {
            let probe = guarded(|| {
                let n = pool.len();
                // only meaningful where == itself is right (otherwise it is C06's finding)
                let eq_ok = (0..n).all(|i| (0..n).all(|j| (pool[i].term == pool[j].term) == (pool[i].r == pool[j].r)));
                let mut bad: Option<String> = None;
                if eq_ok {
                    for e in pool.iter() {
                        let in_set = set.contains(&e.term);
                        let in_map = map.get(&e.term).map(|i| pool[*i].r == e.r);
                        if !in_set || in_map != Some(true) {
                            bad.get_or_insert(format!(
                                "a HashSet / HashMap filled with the pool values at the beginning of the run no longer finds {} `{}` at its end (set: {in_set}, map: {in_map:?})",
                                e.label,
                                show_physical(&e.term)
                            ));
                        }
                    }
                }
                (bad, n as u64)
            });
            if let Some((bad, n)) = probe {
                stats.container_ops += 2 * n;
                log.d.u64(bad.is_some() as u64);
                if let Some(msg) = bad {
                    log.line(|| format!("!! C07 key-stored-earlier-not-found-later: {msg}"));
                    violations.push(Violation { prop: "C07", kind: "key-stored-earlier-not-found-later".into(), message: msg });
                }
            }
        }
        // ---- reach measures ----
        let n = pool.len();
        let mut layouts: Vec<u64> = pool.iter().map(|e| e.layout).collect();
        for i in 0..n {
            stats.physical_duplicates += physical_duplicates(&pool[i].term);
            for j in (i + 1)..n {
                if pool[i].r == pool[j].r {
                    stats.twin_pairs += 1;
                    if pool[i].layout != pool[j].layout {
                        stats.twin_pairs_manifested += 1;
                    }
                } else {
                    stats.unequal_pairs += 1;
                }
            }
        }
        stats.nontrivial = stats.twin_pairs_manifested > 0;
        layouts.sort_unstable();
        layouts.dedup();
        let mut td = Digest::new();
        for (i, d) in descs.iter().enumerate() {
            td.u64(i as u64);
            digest_rterm(&canon(d), &mut td);
        }
        for l in &layouts {
            td.u64(*l);
        }
        stats.trace_digest = td.finish();
        stats.layouts = layouts;
        let _ = pool.iter().map(|e| e.desc).max();
    }
    let (handed, tape_digest) = tape_stats();
    stats.keys_handed_out = handed;
    log.d.u64(handed);
    log.d.u64(tape_digest);
    if ch.overrun {
        log.line(|| "note: decision cap reached; remaining decisions were 0".to_string());
    }
    TermsReport {
        violations,
        log,
        stats,
    }
}

#[inline]
fn descs_len_plus(m: usize) -> usize {
    m + 1
}


// ---------------------------------------------------------------------------------------------
// in-place mutations through the public API, mirrored on the description

/// the description after mutation `which` (0 push into the root container, 1 rename the first
/// atom reachable without crossing an unordered container, 2 swap the root statement's operands)
fn mutate_desc(d: &Desc, which: u32, ch: &mut Choices) -> Option<(Desc, &'static str)> {
    match which {
        0 => match d {
            Desc::Set(k, v) => {
                let mut v = v.clone();
                v.push(Desc::Atom(A_WORD, "pushed".into()));
                if ch.chance(1, 2) {
                    v.push(Desc::Set(S_SET_EXT, vec![Desc::Atom(A_WORD, "p1".into()), Desc::Atom(A_WORD, "p2".into())]));
                }
                Some((Desc::Set(*k, v), "push_components into an unordered root"))
            }
            Desc::Seq(k, v) => {
                let mut v = v.clone();
                v.push(Desc::Atom(A_WORD, "pushed".into()));
                Some((Desc::Seq(*k, v), "push_components into an ordered root"))
            }
            _ => None,
        },
        1 => {
            let mut m = d.clone();
            if rename_first_atom_desc(&mut m, "renamed") {
                Some((m, "set_atom_name on a nested atom"))
            } else {
                None
            }
        }
        _ => match d {
            Desc::Pair(k, a, b) => Some((Desc::Pair(*k, b.clone(), a.clone()), "swap of the root statement's operands")),
            Desc::Sym(k, a, b) => Some((Desc::Sym(*k, b.clone(), a.clone()), "swap of the root statement's operands")),
            _ => None,
        },
    }
}

fn rename_first_atom_desc(d: &mut Desc, name: &str) -> bool {
    match d {
        Desc::Atom(_, n) => {
            *n = name.to_string();
            true
        }
        Desc::Interval(_) | Desc::Placeholder | Desc::Set(..) => false,
        Desc::Seq(_, v) | Desc::Image(_, _, v) => v.iter_mut().any(|x| rename_first_atom_desc(x, name)),
        Desc::Neg(a) => rename_first_atom_desc(a, name),
        Desc::Pair(_, a, b) | Desc::Sym(_, a, b) => rename_first_atom_desc(a, name) || rename_first_atom_desc(b, name),
    }
}

/// the same walk on the real value (elements of unordered containers are never mutated in place:
/// that would be misuse of a hash set, not a property of the library)
fn rename_first_atom(t: &mut Term, name: &str) -> bool {
    use Term::*;
    match t {
        Word(..) | VariableIndependent(..) | VariableDependent(..) | VariableQuery(..) | Operator(..) => t.set_atom_name(name).is_ok(),
        Placeholder | Interval(..) => false,
        SetExtension(..) | SetIntension(..) | IntersectionExtension(..) | IntersectionIntension(..) | Conjunction(..) | Disjunction(..) | ConjunctionParallel(..) => false,
        Product(v) | ConjunctionSequential(v) | ImageExtension(_, v) | ImageIntension(_, v) => v.iter_mut().any(|x| rename_first_atom(x, name)),
        Negation(a) => rename_first_atom(a, name),
        DifferenceExtension(a, b) | DifferenceIntension(a, b) | Inheritance(a, b) | Similarity(a, b) | Implication(a, b) | Equivalence(a, b)
        | ImplicationPredictive(a, b) | ImplicationConcurrent(a, b) | ImplicationRetrospective(a, b) | EquivalencePredictive(a, b)
        | EquivalenceConcurrent(a, b) => rename_first_atom(a, name) || rename_first_atom(b, name),
    }
}

fn swap_root_operands(t: &mut Term) -> bool {
    use Term::*;
    match t {
        DifferenceExtension(a, b) | DifferenceIntension(a, b) | Inheritance(a, b) | Similarity(a, b) | Implication(a, b) | Equivalence(a, b)
        | ImplicationPredictive(a, b) | ImplicationConcurrent(a, b) | ImplicationRetrospective(a, b) | EquivalencePredictive(a, b)
        | EquivalenceConcurrent(a, b) => {
            std::mem::swap(a, b);
            true
        }
        _ => false,
    }
}


// ---------------------------------------------------------------------------------------------
// cold start: the first things a fresh process does

/// One value of every constructor family is built, hashed and stored IN A DRAWN ORDER as the very
/// first use of the library in a fresh process; afterwards every stored value must still hash as
/// it did, still be found, and equal (and hash like) a twin built now. Catches state that is set up
/// lazily on the first use of some family and changes how earlier values hash or compare.
pub fn cold_start(ch: &mut Choices) -> Vec<Violation> {
    use narsese::enum_narsese::Term as T;
    let w = |n: &str| T::new_word(n);
    let builders: Vec<(&'static str, Box<dyn Fn() -> Term>)> = vec![
        ("word", Box::new(move || w("A"))),
        ("variable", Box::new(|| T::new_variable_independent("x"))),
        ("interval", Box::new(|| T::new_interval(3))),
        ("similarity of atoms", Box::new(move || T::new_similarity(w("A"), w("B")))),
        ("equivalence of statements", Box::new(move || T::new_equivalence(T::new_inheritance(w("A"), w("B")), T::new_similarity(w("C"), w("D"))))),
        ("inheritance around a similarity", Box::new(move || T::new_inheritance(T::new_similarity(w("A"), w("B")), w("C")))),
        ("negation", Box::new(move || T::new_negation(w("A")))),
        ("product", Box::new(move || T::new_product(vec![w("A"), w("B")]))),
        ("image", Box::new(move || T::new_image_extension(1, vec![w("R"), w("A")]))),
        ("extensional set", Box::new(move || T::new_set_extension(vec![w("A"), w("B")]))),
        ("conjunction", Box::new(move || T::new_conjunction(vec![w("A"), T::new_similarity(w("B"), w("C"))]))),
        ("set of sets", Box::new(move || T::new_set_intension(vec![T::new_set_extension(vec![w("A"), w("B")]), w("C")]))),
        ("parsed statement", Box::new(|| match ENUM_FORMATS[0].parse::<Narsese>("<{A, B} <-> (&&, C, D)>") {
            Ok(NarseseValue::Term(t)) => t,
            _ => T::new_word("unparsed"),
        })),
    ];
    let order = ch.permutation(builders.len());
    let key = 0x5eed_c01d;
    let mut out: Vec<Violation> = vec![];
    let run = guarded(|| {
        let mut stored: Vec<(usize, Term, [u64; 3])> = vec![];
        let mut table: HashSet<Term, SipBuild> = HashSet::with_hasher(SipBuild);
        let mut map: HashMap<Term, usize, FnvBuild> = HashMap::with_hasher(FnvBuild);
        let mut bad: Option<(&'static str, String)> = None;
        for &i in &order {
            let v = (builders[i].1)();
            let h = hash3(&v, key);
            table.insert(v.clone());
            map.insert(v.clone(), i);
            stored.push((i, v, h));
        }
        for (i, v, h) in &stored {
            let name = builders[*i].0;
            let now = hash3(v, key);
            let twin = (builders[*i].1)();
            let first_of = format!("(order of first use in this process: {})", order.iter().map(|j| builders[*j].0).collect::<Vec<_>>().join(", "));
            if now != *h {
                bad.get_or_insert(("hash-unstable", format!("the {name} built at process start hashes differently at the end of the cold start {first_of}")));
            }
            if !(twin == *v) || !(*v == twin) {
                bad.get_or_insert(("same-term-compares-unequal", format!("the {name} built at process start and the same {name} built later compare unequal {first_of}")));
            } else if hash3(&twin, key) != now {
                bad.get_or_insert(("equal-terms-hash-differently", format!("the {name} built at process start and the same {name} built later hash differently {first_of}")));
            } else if !table.contains(&twin) || map.get(&twin) != Some(i) {
                bad.get_or_insert(("key-stored-earlier-not-found-later", format!("a {name} stored in a HashSet / HashMap at process start is not found by an equal {name} built later {first_of}")));
            }
        }
        bad
    });
    match run {
        Some(None) => {}
        Some(Some((kind, msg))) => {
            let prop = if kind == "same-term-compares-unequal" { "C06" } else { "C07" };
            out.push(Violation { prop, kind: kind.to_string(), message: format!("cold start: {msg}") });
        }
        None => out.push(Violation { prop: "C06", kind: "panic-while-comparing-or-hashing".into(), message: "cold start: a panic escaped".into() }),
    }
    out
}
