//! Description trees: the workload of the term simulation.
//!
//! A `Desc` says *which Narsese term* to build (with the children of unordered nodes listed in
//! some order, possibly with semantic duplicates); `realise` (realise.rs) says *how* — by which
//! route, in which insertion order, with which duplicates, capacity history and hasher keys.
//! `canon` maps a description to the reference model. `near_miss` applies exactly one semantic
//! mutation, producing a term that must NOT compare equal.

use crate::prng::Choices;
use crate::refmodel::*;

#[derive(Clone, Debug, PartialEq, Eq)]
pub enum Desc {
    Atom(u8, String),
    Interval(usize),
    Placeholder,
    Set(u8, Vec<Desc>),
    Seq(u8, Vec<Desc>),
    Image(u8, usize, Vec<Desc>),
    Neg(Box<Desc>),
    Pair(u8, Box<Desc>, Box<Desc>),
    Sym(u8, Box<Desc>, Box<Desc>),
}

pub fn canon(d: &Desc) -> RTerm {
    match d {
        Desc::Atom(k, n) => RTerm::Atom(*k, n.clone()),
        Desc::Interval(i) => RTerm::Interval(*i),
        Desc::Placeholder => RTerm::Placeholder,
        Desc::Set(k, v) => RTerm::Set(*k, v.iter().map(canon).collect()),
        Desc::Seq(k, v) => RTerm::Seq(*k, v.iter().map(canon).collect()),
        Desc::Image(k, i, v) => RTerm::Image(*k, *i, v.iter().map(canon).collect()),
        Desc::Neg(a) => RTerm::Neg(Box::new(canon(a))),
        Desc::Pair(k, a, b) => RTerm::Pair(*k, Box::new(canon(a)), Box::new(canon(b))),
        Desc::Sym(k, a, b) => sym(*k, canon(a), canon(b)),
    }
}

pub fn size(d: &Desc) -> usize {
    match d {
        Desc::Atom(..) | Desc::Interval(_) | Desc::Placeholder => 1,
        Desc::Set(_, v) | Desc::Seq(_, v) | Desc::Image(_, _, v) => {
            1 + v.iter().map(size).sum::<usize>()
        }
        Desc::Neg(a) => 1 + size(a),
        Desc::Pair(_, a, b) | Desc::Sym(_, a, b) => 1 + size(a) + size(b),
    }
}

pub fn depth(d: &Desc) -> usize {
    match d {
        Desc::Atom(..) | Desc::Interval(_) | Desc::Placeholder => 0,
        Desc::Set(_, v) | Desc::Seq(_, v) | Desc::Image(_, _, v) => 1 + v.iter().map(depth).max().unwrap_or(0),
        Desc::Neg(a) => 1 + depth(a),
        Desc::Pair(_, a, b) | Desc::Sym(_, a, b) => 1 + depth(a).max(depth(b)),
    }
}

/// Can this description be written down and read back by the shipped parsers?
/// (non-empty compounds, no placeholder inside an image, identifier names)
pub fn parseable(d: &Desc) -> bool {
    match d {
        Desc::Atom(_, n) => {
            !n.is_empty() && n.chars().all(|c| c.is_ascii_alphanumeric()) && n.chars().next().map_or(false, |c| c.is_ascii_alphabetic())
        }
        Desc::Interval(_) | Desc::Placeholder => true,
        Desc::Set(_, v) | Desc::Seq(_, v) => !v.is_empty() && v.iter().all(parseable),
        Desc::Image(_, i, v) => {
            !v.is_empty()
                && *i <= v.len()
                && v.iter().all(|x| !matches!(x, Desc::Placeholder) && parseable(x))
        }
        Desc::Neg(a) => parseable(a),
        Desc::Pair(_, a, b) | Desc::Sym(_, a, b) => parseable(a) && parseable(b),
    }
}

/// Swarm parameters of the description generator
#[derive(Clone, Copy, Debug)]
pub struct GenParams {
    pub max_depth: u32,
    pub max_fan: u32,
    pub n_names: u32,
    /// bias (0..=3): how strongly compound children are drawn from unordered / symmetric constructors
    pub unordered_bias: u32,
    /// allow exotic shapes (empty sets, placeholder atoms, placeholders inside images, non-identifier names)
    pub exotic: bool,
    /// a compound position below the root becomes an atom with probability 1/stop_den
    pub stop_den: u32,
    /// draw some names from a pool of CJK words (some begin with the first character of a Han copula)
    pub cjk_names: bool,
    /// draw names from a pool of a thousand numbered names (containers with hundreds of DISTINCT elements)
    pub many_names: bool,
    /// draw names from words that occur in real NARS input (SELF, good, op names, numbers as names ...)
    pub domain_names: bool,
}

const NAMES: [&str; 14] = ["A", "B", "C", "D", "robin", "bird", "x1", "Z9", "E", "F", "G", "H", "tweety", "k2"];
const EXOTIC_NAMES: [&str; 6] = ["", "a-b", "_u", "名", "is", "A "];

fn gen_atom(ch: &mut Choices, p: &GenParams) -> Desc {
    // 0 = plain word
    match ch.weighted(&[60, 8, 8, 6, 6, 8, if p.exotic { 4 } else { 0 }]) {
        0 => Desc::Atom(A_WORD, gen_name(ch, p)),
        1 => Desc::Atom(A_IVAR, gen_name(ch, p)),
        2 => Desc::Atom(A_DVAR, gen_name(ch, p)),
        3 => Desc::Atom(A_QVAR, gen_name(ch, p)),
        4 => Desc::Atom(A_OP, gen_name(ch, p)),
        5 => Desc::Interval([0usize, 1, 2, 3, 7, 1 << 20, usize::MAX - 1, usize::MAX][ch.weighted(&[20, 20, 20, 20, 8, 4, 4, 4])]),
        _ => Desc::Placeholder,
    }
}

const CJK_NAMES: [&str; 8] = ["将军", "现场", "曾经", "具体", "雨", "人", "湿地", "我"];

// words that occur in real NARS input, numbered device names sharing long prefixes, and a few
// classic FNV-1a/32 collision pairs (weak 32-bit keys are a classic way to "order" operands)
const DOMAIN_NAMES: [&str; 36] = [
    "SELF", "self", "good", "bad", "left", "right", "ball", "do", "any", "some", "op", "word", "robin", "bird", "animal", "tim", "0", "1", "42", "t001", "true", "null", "x", "y",
    "switch001", "switch002", "corridor001", "corridor002", "sensor0001", "sensor0002",
    "costarring", "liquid", "declinate", "macallums", "altarage", "zinke",
];

fn gen_name(ch: &mut Choices, p: &GenParams) -> String {
    if p.domain_names && ch.chance(1, 2) {
        return DOMAIN_NAMES[ch.choose(DOMAIN_NAMES.len() as u32) as usize].to_string();
    }
    if p.many_names {
        return format!("n{}", ch.choose(1000));
    }
    if p.exotic && ch.chance(1, 40) {
        // a very long name
        return "longname".repeat(40);
    }
    if p.cjk_names && ch.chance(1, 3) {
        return CJK_NAMES[ch.choose(CJK_NAMES.len() as u32) as usize].to_string();
    }
    if p.exotic && ch.chance(1, 12) {
        return EXOTIC_NAMES[ch.choose(EXOTIC_NAMES.len() as u32) as usize].to_string();
    }
    NAMES[ch.choose(p.n_names.min(NAMES.len() as u32)) as usize].to_string()
}

/// `in_unordered`: this node is a direct or indirect child of an unordered / symmetric node
pub fn gen_desc(ch: &mut Choices, p: &GenParams, depth: u32, in_unordered: bool) -> Desc {
    // every description is bounded: at most ~MAX_NODES compound positions, then atoms only
    let mut budget = MAX_NODES;
    gen_desc_in(ch, p, depth, in_unordered, &mut budget)
}

const MAX_NODES: u32 = 90;

fn gen_desc_in(ch: &mut Choices, p: &GenParams, depth: u32, in_unordered: bool, budget: &mut u32) -> Desc {
    if depth >= p.max_depth || *budget == 0 || (depth > 0 && ch.chance(1, p.stop_den.max(2))) {
        return gen_atom(ch, p);
    }
    *budget -= 1;
    // family weights: set, sym, pair, seq, image, neg
    // inside an unordered parent, bias towards more unordered structure: only *nested*
    // unordered structure makes equality go through `Term::hash`
    let b = p.unordered_bias;
    let w_set = 30 + 10 * b + if in_unordered { 10 * b } else { 0 };
    let w_sym = 12 + 4 * b + if in_unordered { 4 * b } else { 0 };
    let fam = ch.weighted(&[w_set, w_sym, 16, 10, 6, 5]);
    let kids = |ch: &mut Choices, n: u32, unordered: bool, budget: &mut u32| -> Vec<Desc> {
        (0..n)
            .map(|_| gen_desc_in(ch, p, depth + 1, in_unordered || unordered, budget))
            .collect()
    };
    match fam {
        0 => {
            let k = ch.choose(N_SET as u32) as u8;
            let lo = if p.exotic && ch.chance(1, 10) { 0 } else { 1 };
            let n = ch.range(lo, p.max_fan.max(lo));
            let mut v = kids(ch, n, true, budget);
            // semantic duplicates listed explicitly in the description
            if !v.is_empty() && ch.chance(1, 5) {
                let i = ch.choose(v.len() as u32) as usize;
                let dup = v[i].clone();
                let at = ch.choose(v.len() as u32 + 1) as usize;
                v.insert(at, dup);
            }
            Desc::Set(k, v)
        }
        1 => {
            let k = ch.choose(N_SYM as u32) as u8;
            let a = gen_desc_in(ch, p, depth + 1, true, budget);
            let b = if ch.chance(1, 8) {
                a.clone()
            } else {
                gen_desc_in(ch, p, depth + 1, true, budget)
            };
            Desc::Sym(k, Box::new(a), Box::new(b))
        }
        2 => {
            let k = ch.choose(N_PAIR as u32) as u8;
            let a = gen_desc_in(ch, p, depth + 1, in_unordered, budget);
            let b = gen_desc_in(ch, p, depth + 1, in_unordered, budget);
            Desc::Pair(k, Box::new(a), Box::new(b))
        }
        3 => {
            let k = ch.choose(N_SEQ as u32) as u8;
            let lo = if p.exotic && ch.chance(1, 10) { 0 } else { 1 };
            let n = ch.range(lo, p.max_fan.max(lo));
            Desc::Seq(k, kids(ch, n, false, budget))
        }
        4 => {
            let k = ch.choose(2) as u8;
            let n = ch.range(1, p.max_fan.max(1));
            let mut v = kids(ch, n, false, budget);
            // no placeholder inside an image (the surface syntax could not express it),
            // except in exotic descriptions, which only go through the constructor routes
            for x in v.iter_mut() {
                if matches!(x, Desc::Placeholder) && !p.exotic {
                    *x = Desc::Atom(A_WORD, "A".into());
                }
            }
            if p.exotic && ch.chance(1, 3) {
                let at = ch.choose(v.len() as u32) as usize;
                v[at] = Desc::Placeholder;
            }
            let i = ch.choose(v.len() as u32 + 1) as usize;
            Desc::Image(k, i, v)
        }
        _ => Desc::Neg(Box::new(gen_desc_in(ch, p, depth + 1, in_unordered, budget))),
    }
}

// ---------------------------------------------------------------------------------------------
// near misses

fn count_nodes(d: &Desc) -> usize {
    size(d)
}

/// visit node number `target` (pre-order) mutably
fn with_node<R>(d: &mut Desc, target: &mut usize, f: &mut dyn FnMut(&mut Desc) -> R) -> Option<R> {
    if *target == 0 {
        return Some(f(d));
    }
    *target -= 1;
    match d {
        Desc::Atom(..) | Desc::Interval(_) | Desc::Placeholder => None,
        Desc::Set(_, v) | Desc::Seq(_, v) | Desc::Image(_, _, v) => {
            for x in v.iter_mut() {
                if let Some(r) = with_node(x, target, f) {
                    return Some(r);
                }
            }
            None
        }
        Desc::Neg(a) => with_node(a, target, f),
        Desc::Pair(_, a, b) | Desc::Sym(_, a, b) => {
            if let Some(r) = with_node(a, target, f) {
                return Some(r);
            }
            with_node(b, target, f)
        }
    }
}

fn fresh_atom() -> Desc {
    Desc::Atom(A_WORD, "Q".into())
}

/// One semantic mutation at one node. Returns a label of what was done, or None if the mutation
/// drawn does not apply at that node (caller retries). The caller verifies `canon` changed.
fn mutate_node(d: &mut Desc, ch: &mut Choices) -> Option<&'static str> {
    // shape-level near misses that apply to any node: the kind of difference a "generous"
    // equality might be tempted to ignore
    if ch.chance(1, 6) {
        let inner = std::mem::replace(d, Desc::Placeholder);
        return Some(match ch.choose(5) {
            0 => {
                *d = Desc::Neg(Box::new(Desc::Neg(Box::new(inner))));
                "wrap-in-double-negation"
            }
            1 => {
                *d = Desc::Set(ch.choose(N_SET as u32) as u8, vec![inner]);
                "wrap-in-singleton-unordered"
            }
            2 => {
                *d = Desc::Seq(ch.choose(N_SEQ as u32) as u8, vec![inner]);
                "wrap-in-singleton-ordered"
            }
            3 => match inner {
                // unwrap a singleton container
                Desc::Set(_, mut v) | Desc::Seq(_, mut v) if v.len() == 1 => {
                    *d = v.pop().unwrap();
                    "unwrap-singleton"
                }
                other => {
                    *d = Desc::Neg(Box::new(other));
                    "wrap-in-negation"
                }
            },
            _ => match inner {
                Desc::Atom(k, n) => {
                    // a spelling variant of the same name
                    let variant = match ch.choose(4) {
                        0 => n.to_uppercase(),
                        1 => n.to_lowercase(),
                        2 => format!("{n} "),
                        _ => format!("0{n}"),
                    };
                    let changed = variant != n;
                    *d = Desc::Atom(k, if changed { variant } else { format!("{n}_") });
                    "spelling-variant-of-name"
                }
                Desc::Interval(i) => {
                    *d = Desc::Atom(A_WORD, i.to_string());
                    "interval-to-word-with-that-number"
                }
                other => {
                    *d = Desc::Neg(Box::new(other));
                    "wrap-in-negation"
                }
            },
        });
    }
    match d {
        Desc::Atom(k, n) => match ch.choose(3) {
            0 => {
                n.push('q');
                Some("rename-atom")
            }
            1 => {
                *k = (*k + 1 + ch.choose(4) as u8) % 5;
                Some("change-atom-kind")
            }
            _ => {
                *d = Desc::Interval(7);
                Some("atom-to-interval")
            }
        },
        Desc::Interval(i) => {
            *i += 1;
            Some("change-interval")
        }
        Desc::Placeholder => {
            *d = Desc::Atom(A_WORD, "_".into());
            Some("placeholder-to-word")
        }
        Desc::Set(k, v) => match ch.choose(4) {
            0 => {
                // another unordered constructor of the same shape
                *k = (*k + 1 + ch.choose(N_SET as u32 - 1) as u8) % N_SET;
                Some("swap-set-constructor")
            }
            1 => {
                v.push(fresh_atom());
                Some("add-set-element")
            }
            2 if v.len() >= 2 => {
                // remove every copy of one element (removing one duplicate would not change the term)
                let i = ch.choose(v.len() as u32) as usize;
                let c = canon(&v[i]);
                v.retain(|x| canon(x) != c);
                Some("remove-set-element")
            }
            _ => {
                // same elements, but as an ORDERED compound
                let kids = std::mem::take(v);
                *d = Desc::Seq(ch.choose(N_SEQ as u32) as u8, kids);
                Some("set-to-sequence")
            }
        },
        Desc::Seq(k, v) => match ch.choose(4) {
            0 => {
                *k = (*k + 1) % N_SEQ;
                Some("swap-seq-constructor")
            }
            1 if v.len() >= 2 => {
                // permute an ORDERED compound: must become a different term unless the swapped
                // components are equal (caller checks canon)
                let i = ch.choose(v.len() as u32 - 1) as usize;
                v.swap(i, i + 1);
                Some("permute-ordered")
            }
            2 if !v.is_empty() => match ch.choose(3) {
                0 => {
                    // duplicates matter in ordered compounds
                    let i = ch.choose(v.len() as u32) as usize;
                    let c = v[i].clone();
                    v.insert(i, c);
                    Some("duplicate-in-ordered")
                }
                1 => {
                    // an element that "takes no time" / "means nothing" is still an element
                    let i = ch.choose(v.len() as u32 + 1) as usize;
                    v.insert(i, if ch.chance(1, 2) { Desc::Interval(0) } else { Desc::Placeholder });
                    Some("insert-zero-interval-or-placeholder-in-ordered")
                }
                _ => {
                    let i = ch.choose(v.len() as u32) as usize;
                    v.remove(i);
                    Some("remove-from-ordered")
                }
            },
            _ => {
                v.push(fresh_atom());
                Some("append-to-ordered")
            }
        },
        Desc::Image(k, i, v) => match ch.choose(4) {
            0 => {
                *k = (*k + 1) % 2;
                Some("swap-image-constructor")
            }
            1 => {
                // change only the placeholder position
                *i = (*i + 1 + ch.choose(v.len() as u32) as usize) % (v.len() + 1);
                Some("move-image-placeholder")
            }
            2 if v.len() >= 2 => {
                let j = ch.choose(v.len() as u32 - 1) as usize;
                v.swap(j, j + 1);
                Some("permute-image")
            }
            _ => {
                // same components, as a product
                let kids = std::mem::take(v);
                *d = Desc::Seq(Q_PRODUCT, kids);
                Some("image-to-product")
            }
        },
        Desc::Neg(a) => {
            let inner = std::mem::replace(a.as_mut(), Desc::Placeholder);
            *d = inner;
            Some("drop-negation")
        }
        Desc::Pair(k, a, b) => match ch.choose(4) {
            0 => {
                // swap operands of an ASYMMETRIC statement / difference
                std::mem::swap(a, b);
                Some("swap-asymmetric-operands")
            }
            3 => {
                // two differences at once: another asymmetric constructor AND swapped operands
                // (e.g. predictive vs. retrospective implication the other way round)
                std::mem::swap(a, b);
                *k = (*k + 1 + ch.choose(N_PAIR as u32 - 1) as u8) % N_PAIR;
                Some("swap-operands-and-pair-constructor")
            }
            1 => {
                *k = (*k + 1 + ch.choose(N_PAIR as u32 - 1) as u8) % N_PAIR;
                Some("swap-pair-constructor")
            }
            _ => {
                // asymmetric -> symmetric copula with the same operands
                let (x, y) = (a.clone(), b.clone());
                *d = Desc::Sym(ch.choose(N_SYM as u32) as u8, x, y);
                Some("pair-to-symmetric")
            }
        },
        Desc::Sym(k, a, b) => match ch.choose(3) {
            0 => {
                *k = (*k + 1 + ch.choose(N_SYM as u32 - 1) as u8) % N_SYM;
                Some("swap-symmetric-constructor")
            }
            1 => {
                // symmetric -> asymmetric copula with the same operands (e.g. <=> to </>)
                let (x, y) = (a.clone(), b.clone());
                let kinds = [P_INH, P_IMPL, P_EQUIV_PRED, P_IMPL_CONC];
                *d = Desc::Pair(kinds[ch.choose(4) as usize], x, y);
                Some("symmetric-to-pair")
            }
            _ => {
                // replace one operand by the other one: <A <-> B>  ->  <A <-> A>
                **b = (**a).clone();
                Some("collapse-symmetric-operand")
            }
        },
    }
}

/// A description differing from `d` by exactly one semantic mutation, with `canon` different.
pub fn near_miss(d: &Desc, ch: &mut Choices) -> Option<(Desc, &'static str, usize)> {
    let n = count_nodes(d);
    for _ in 0..6 {
        let mut m = d.clone();
        let at = ch.choose(n as u32) as usize;
        let mut t = at;
        // bias: every other attempt targets the root's neighbourhood less and deep nodes more is
        // already given by uniform node choice (most nodes are deep)
        let label = with_node(&mut m, &mut t, &mut |node| mutate_node(node, ch)).flatten();
        if let Some(label) = label {
            if canon(&m) != canon(d) {
                return Some((m, label, at));
            }
        }
    }
    None
}
