//! SplitMix64 + xoshiro256** and the recorded choice sequence every run is driven by.
//!
//! One integer decides everything: `VERIF_SEED` -> `run_seed(seed, prop, i)` -> one xoshiro
//! stream -> a sequence of small integers (`Choices`). A run is a pure function of its choice
//! sequence; the replay file stores that sequence explicitly, the minimiser edits it.

#[inline]
pub fn splitmix(mut z: u64) -> u64 {
    z = z.wrapping_add(0x9E37_79B9_7F4A_7C15);
    z = (z ^ (z >> 30)).wrapping_mul(0xBF58_476D_1CE4_E5B9);
    z = (z ^ (z >> 27)).wrapping_mul(0x94D0_49BB_1331_11EB);
    z ^ (z >> 31)
}

/// seed of run `i` of simulation `sim` under master seed `seed`
pub fn run_seed(seed: u64, sim: u64, i: u64) -> u64 {
    splitmix(splitmix(seed ^ 0x5eed_0000_0000_0000) ^ splitmix(sim.wrapping_mul(0x1000_0001)) ^ i.wrapping_mul(0x9E37_79B9_7F4A_7C15))
}

#[derive(Clone, Debug)]
pub struct Xoshiro {
    s: [u64; 4],
}

impl Xoshiro {
    pub fn new(seed: u64) -> Self {
        let mut z = seed;
        let mut s = [0u64; 4];
        for x in s.iter_mut() {
            z = z.wrapping_add(0x9E37_79B9_7F4A_7C15);
            *x = splitmix(z);
        }
        if s == [0; 4] {
            s[0] = 1;
        }
        Self { s }
    }
    #[inline]
    pub fn next_u64(&mut self) -> u64 {
        let r = self.s[1].wrapping_mul(5).rotate_left(7).wrapping_mul(9);
        let t = self.s[1] << 17;
        self.s[2] ^= self.s[0];
        self.s[3] ^= self.s[1];
        self.s[1] ^= self.s[2];
        self.s[0] ^= self.s[3];
        self.s[2] ^= t;
        self.s[3] = self.s[3].rotate_left(45);
        r
    }
    /// uniform in 0..n (n >= 1)
    #[inline]
    pub fn below(&mut self, n: u64) -> u64 {
        // multiply-shift; bias is < 2^-32 for the small n used here
        ((self.next_u64() >> 32).wrapping_mul(n)) >> 32
    }
}

/// The recorded sequence of decisions of one run.
///
/// * generating: every decision is drawn from the PRNG and appended;
/// * replaying: decisions are read back (an exhausted sequence yields 0 = the simplest choice).
///
/// All generators are written so that 0 is the simplest alternative, which is what lets the
/// minimiser shrink by deleting and zeroing entries.
/// how `Choices::chance` records "yes"
pub const CHANCE_TRUE: u32 = 0x00C0_FFEE;

pub struct Choices {
    data: Vec<u32>,
    pos: usize,
    rng: Option<Xoshiro>,
    /// hard cap on decisions per run (bounds every run)
    cap: usize,
    pub overrun: bool,
}

impl Choices {
    pub fn generate(seed: u64) -> Self {
        Self {
            data: Vec::with_capacity(256),
            pos: 0,
            rng: Some(Xoshiro::new(seed)),
            cap: 20_000,
            overrun: false,
        }
    }
    pub fn replay(data: Vec<u32>) -> Self {
        Self {
            data,
            pos: 0,
            rng: None,
            cap: 20_000,
            overrun: false,
        }
    }
    /// the decisions actually consumed so far
    pub fn consumed(&self) -> &[u32] {
        &self.data[..self.pos.min(self.data.len())]
    }
    pub fn into_data(mut self) -> Vec<u32> {
        self.data.truncate(self.pos);
        self.data
    }
    #[inline]
    fn raw(&mut self, n: u32, draw: impl FnOnce(&mut Xoshiro) -> u32) -> u32 {
        if self.pos >= self.cap {
            self.overrun = true;
            return 0;
        }
        let v = match &mut self.rng {
            Some(rng) => {
                let v = draw(rng);
                self.data.push(v);
                v
            }
            None => match self.data.get(self.pos) {
                Some(v) => *v,
                None => 0,
            },
        };
        self.pos += 1;
        if n == 0 {
            v
        } else {
            v % n
        }
    }
    /// uniform in 0..n
    #[inline]
    pub fn choose(&mut self, n: u32) -> u32 {
        debug_assert!(n >= 1);
        if n <= 1 {
            return 0;
        }
        self.raw(n, |r| r.below(n as u64) as u32)
    }
    /// in lo..=hi
    #[inline]
    pub fn range(&mut self, lo: u32, hi: u32) -> u32 {
        lo + self.choose(hi - lo + 1)
    }
    /// true with probability num/den; recorded as 1 (true) / 0 (false)
    #[inline]
    pub fn chance(&mut self, num: u32, den: u32) -> bool {
        if num == 0 {
            return false;
        }
        // "true" is recorded as a marker value, not as 1: when the minimiser deletes or shifts
        // entries, an arbitrary small number must not switch a rare (and possibly expensive)
        // option on - anything but the marker reads as false, the simplest alternative
        self.raw(0, |r| if r.below(den as u64) < num as u64 { CHANCE_TRUE } else { 0 }) == CHANCE_TRUE
    }
    /// index drawn by weight; index 0 should be the simplest alternative
    pub fn weighted(&mut self, weights: &[u32]) -> usize {
        let total: u32 = weights.iter().sum();
        let n = weights.len() as u32;
        let w = weights.to_vec();
        let i = self.raw(n, move |r| {
            let mut x = r.below(total as u64) as u32;
            for (i, wi) in w.iter().enumerate() {
                if x < *wi {
                    return i as u32;
                }
                x -= *wi;
            }
            0
        }) as usize;
        // a replayed / minimised value may point at a zero-weight alternative: fall to the first allowed one
        if weights[i] == 0 {
            weights.iter().position(|w| *w > 0).unwrap_or(0)
        } else {
            i
        }
    }
    /// 32 raw bits
    #[inline]
    pub fn bits(&mut self) -> u32 {
        self.raw(0, |r| (r.next_u64() >> 32) as u32)
    }
    /// a permutation of 0..n by Fisher-Yates; all-zero decisions give the identity
    pub fn permutation(&mut self, n: usize) -> Vec<usize> {
        let mut p: Vec<usize> = (0..n).collect();
        for i in 0..n.saturating_sub(1) {
            let j = i + self.choose((n - i) as u32) as usize;
            p.swap(i, j);
        }
        p
    }
}

/// FNV-1a 64 over bytes, used for digests of traces / logs (never for decisions)
#[derive(Clone, Copy)]
pub struct Digest(pub u64);
impl Digest {
    pub fn new() -> Self {
        Digest(0xcbf2_9ce4_8422_2325)
    }
    #[inline]
    pub fn bytes(&mut self, b: &[u8]) {
        for x in b {
            self.0 = (self.0 ^ (*x as u64)).wrapping_mul(0x0000_0100_0000_01B3);
        }
    }
    #[inline]
    pub fn u64(&mut self, v: u64) {
        self.bytes(&v.to_le_bytes());
    }
    #[inline]
    pub fn str(&mut self, s: &str) {
        self.bytes(s.as_bytes());
        self.bytes(&[0xff]);
    }
    pub fn finish(&self) -> u64 {
        splitmix(self.0)
    }
}
