//! Minimisation of a failing choice sequence (delta debugging over the recorded decisions).
//!
//! A candidate is kept only if replaying it still produces a violation of the same
//! (property, kind). Generators are written so that 0 is the simplest alternative and an
//! exhausted sequence reads as zeros, hence: truncate, delete blocks, zero blocks, lower values.

pub struct MinimiseResult {
    pub data: Vec<u32>,
    pub executions: u64,
    pub original_len: usize,
}

pub fn minimise(
    original: Vec<u32>,
    mut still_fails: impl FnMut(&[u32]) -> bool,
    budget: u64,
) -> MinimiseResult {
    let original_len = original.len();
    let mut best = original;
    let mut execs = 0u64;
    // bounded in executions AND in wall-clock time (a tree under test can make single runs slow)
    let started = std::time::Instant::now();
    let mut try_candidate = |cand: &[u32], execs: &mut u64| -> bool {
        if started.elapsed().as_secs() > 90 {
            *execs = (*execs).max(budget);
            return false;
        }
        *execs += 1;
        still_fails(cand)
    };
    // strip trailing zeros: an exhausted sequence reads as zeros anyway
    let trim = |v: &mut Vec<u32>| {
        while v.last() == Some(&0) {
            v.pop();
        }
    };
    trim(&mut best);
    let mut improved = true;
    while improved && execs < budget {
        improved = false;
        // 1. truncate the tail (binary search on length)
        let mut lo = 0usize;
        let mut hi = best.len();
        while lo < hi && execs < budget {
            let mid = (lo + hi) / 2;
            if try_candidate(&best[..mid], &mut execs) {
                hi = mid;
            } else {
                lo = mid + 1;
            }
        }
        if hi < best.len() {
            best.truncate(hi);
            trim(&mut best);
            improved = true;
        }
        // 2. delete blocks
        for size in [32usize, 16, 8, 4, 2, 1] {
            let mut i = 0;
            while i + size <= best.len() && execs < budget {
                let mut cand = Vec::with_capacity(best.len() - size);
                cand.extend_from_slice(&best[..i]);
                cand.extend_from_slice(&best[i + size..]);
                if try_candidate(&cand, &mut execs) {
                    best = cand;
                    trim(&mut best);
                    improved = true;
                } else {
                    i += 1;
                }
            }
        }
        // 3. zero blocks
        for size in [8usize, 4, 2, 1] {
            let mut i = 0;
            while i + size <= best.len() && execs < budget {
                if best[i..i + size].iter().all(|x| *x == 0) {
                    i += 1;
                    continue;
                }
                let mut cand = best.clone();
                for x in cand[i..i + size].iter_mut() {
                    *x = 0;
                }
                if try_candidate(&cand, &mut execs) {
                    best = cand;
                    trim(&mut best);
                    improved = true;
                }
                i += size;
            }
        }
        // 4. lower individual values
        let mut i = 0;
        while i < best.len() && execs < budget {
            let v = best[i];
            if v > 1 {
                for nv in [1u32, v / 2, v - 1] {
                    if nv >= best[i] {
                        continue;
                    }
                    let mut cand = best.clone();
                    cand[i] = nv;
                    if try_candidate(&cand, &mut execs) {
                        best = cand;
                        improved = true;
                        break;
                    }
                }
            }
            i += 1;
        }
    }
    MinimiseResult {
        data: best,
        executions: execs,
        original_len,
    }
}
