//! Handles on the shipped format instances (the real ones; nothing is stubbed here).

use narsese::conversion::string::impl_enum::format_instances as ef;
use narsese::conversion::string::impl_enum::NarseseFormat as EnumFormat;
use narsese::conversion::string::impl_lexical::format_instances as lf;
use narsese::conversion::string::impl_lexical::NarseseFormat as LexFormat;

pub const FORMAT_NAMES: [&str; 3] = ["ascii", "latex", "han"];

pub static ENUM_FORMATS: [EnumFormat<&'static str>; 3] =
    [ef::FORMAT_ASCII, ef::FORMAT_LATEX, ef::FORMAT_HAN];

/// the process-wide shared static lexical instances (lazy_static)
pub fn lex_static(f: usize) -> &'static LexFormat {
    match f {
        0 => &lf::FORMAT_ASCII,
        1 => &lf::FORMAT_LATEX,
        _ => &lf::FORMAT_HAN,
    }
}

/// a freshly created lexical instance (the "restarted" component)
pub fn lex_fresh(f: usize) -> LexFormat {
    match f {
        0 => lf::create_format_ascii(),
        1 => lf::create_format_latex(),
        _ => lf::create_format_han(),
    }
}

/// run `f`, turning a panic into `None` (the panic hook is silenced by main)
pub fn guarded<R>(f: impl FnOnce() -> R) -> Option<R> {
    std::panic::catch_unwind(std::panic::AssertUnwindSafe(f)).ok()
}


/// An enum format BY VALUE, the way user code holds one when it writes `FORMAT_HAN.parse(..)` on the
/// `const` (a temporary) or keeps the format in a re-assigned local: different formats then live
/// at the same address one after the other. `#[inline(never)]` keeps the slot in this frame.
#[inline(never)]
pub fn with_temp_enum_format<R>(f: usize, body: impl FnOnce(&EnumFormat<&'static str>) -> R) -> R {
    let slot: EnumFormat<&'static str> = match f {
        0 => ef::FORMAT_ASCII,
        1 => ef::FORMAT_LATEX,
        _ => ef::FORMAT_HAN,
    };
    let r = body(std::hint::black_box(&slot));
    std::hint::black_box(&slot);
    r
}
