//! Handles on the shipped format instances (the real ones; nothing is stubbed here).

use narsese::conversion::string::impl_enum::format_instances as ef;
use narsese::conversion::string::impl_enum::NarseseFormat as EnumFormat;
use narsese::conversion::string::impl_lexical::format_instances as lf;
use narsese::conversion::string::impl_lexical::NarseseFormat as LexFormat;

/// 0-2: the shipped formats; 3-5: user DIALECTS derived from them through the public fields
/// (enum: same keywords, another name-character predicate; lexical: one more copula)
pub const FORMAT_NAMES: [&str; 6] = ["ascii", "latex", "han", "ascii-dialect", "latex-dialect", "han-dialect"];

/// name characters of the enum dialects: like the stock predicate, but no `-`
fn dialect_name_char(c: char) -> bool {
    c.is_alphanumeric() || c == '_'
}

pub static ENUM_DIALECTS: [EnumFormat<&'static str>; 3] = [
    EnumFormat { is_valid_atom_name: dialect_name_char, ..ef::FORMAT_ASCII },
    EnumFormat { is_valid_atom_name: dialect_name_char, ..ef::FORMAT_LATEX },
    EnumFormat { is_valid_atom_name: dialect_name_char, ..ef::FORMAT_HAN },
];

/// the enum format behind index f (stock 0-2, dialect 3-5)
pub fn enum_format(f: usize) -> &'static EnumFormat<&'static str> {
    if f < 3 {
        &ENUM_FORMATS[f]
    } else {
        &ENUM_DIALECTS[(f - 3) % 3]
    }
}

/// a lexical dialect: a fresh instance of the stock format with one more copula
pub fn lex_dialect(f: usize) -> LexFormat {
    let mut fmt = lex_fresh(f % 3);
    let extra = ["isa", "\\sqsubseteq{}", "属于"][f % 3];
    fmt.statement.copulas.insert(extra.to_string());
    fmt
}


pub static ENUM_FORMATS: [EnumFormat<&'static str>; 3] =
    [ef::FORMAT_ASCII, ef::FORMAT_LATEX, ef::FORMAT_HAN];

/// the process-wide shared static lexical instances (lazy_static)
pub fn lex_static(f: usize) -> &'static LexFormat {
    match f {
        0 => &lf::FORMAT_ASCII,
        1 => &lf::FORMAT_LATEX,
        _ => &lf::FORMAT_HAN,
    }
}

/// a freshly created lexical instance (the "restarted" component)
pub fn lex_fresh(f: usize) -> LexFormat {
    match f {
        0 => lf::create_format_ascii(),
        1 => lf::create_format_latex(),
        _ => lf::create_format_han(),
    }
}

/// run `f`, turning a panic into `None` (the panic hook is silenced by main)
pub fn guarded<R>(f: impl FnOnce() -> R) -> Option<R> {
    std::panic::catch_unwind(std::panic::AssertUnwindSafe(f)).ok()
}


/// An enum format BY VALUE, the way user code holds one when it writes `FORMAT_HAN.parse(..)` on the
/// `const` (a temporary) or keeps the format in a re-assigned local: different formats then live
/// at the same address one after the other. `#[inline(never)]` keeps the slot in this frame.
#[inline(never)]
pub fn with_temp_enum_format<R>(f: usize, body: impl FnOnce(&EnumFormat<&'static str>) -> R) -> R {
    let slot: EnumFormat<&'static str> = match f {
        0 => ef::FORMAT_ASCII,
        1 => ef::FORMAT_LATEX,
        _ => ef::FORMAT_HAN,
    };
    let r = body(std::hint::black_box(&slot));
    std::hint::black_box(&slot);
    r
}
