//! Batch driver: seeded search over many simulated runs, minimisation, replay files, evidence.

use crate::minimise::minimise;
use crate::prng::{run_seed, splitmix, Choices};
use crate::realise::RStats;
use crate::report::*;
use crate::sim_sessions::{self, Entry, Outcome, SessionsRunStats, ENTRY_NAMES, FAULT_NAMES};
use crate::sim_terms::{self, TermsRunStats, HOOKED, TAPE_MODES};
use std::collections::BTreeMap;
use std::sync::atomic::{AtomicU64, Ordering};
use std::time::Instant;

#[derive(Clone, Copy, PartialEq, Eq, Debug)]
pub enum SimKind {
    Terms,
    Sessions,
}
impl SimKind {
    pub fn of_prop(p: &str) -> Option<SimKind> {
        match p {
            "C06" | "C07" => Some(SimKind::Terms),
            "C08" => Some(SimKind::Sessions),
            _ => None,
        }
    }
    pub fn name(&self) -> &'static str {
        match self {
            SimKind::Terms => "terms",
            SimKind::Sessions => "sessions",
        }
    }
    fn id(&self) -> u64 {
        match self {
            SimKind::Terms => 6,
            SimKind::Sessions => 8,
        }
    }
}

pub enum Stats {
    T(TermsRunStats),
    S(SessionsRunStats),
}
pub struct RunOut {
    pub violations: Vec<Violation>,
    pub log: Log,
    pub stats: Stats,
}

pub fn run_once(kind: SimKind, ch: &mut Choices, verbose: bool) -> RunOut {
    match kind {
        SimKind::Terms => {
            let r = sim_terms::run_terms(ch, verbose);
            RunOut { violations: r.violations, log: r.log, stats: Stats::T(r.stats) }
        }
        SimKind::Sessions => {
            let r = sim_sessions::run_sessions(ch, verbose);
            RunOut { violations: r.violations, log: r.log, stats: Stats::S(r.stats) }
        }
    }
}

// ---------------------------------------------------------------------------------------------
// aggregation

#[derive(Default)]
struct Agg {
    runs: u64,
    nontrivial_runs: u64,
    aborted: u64,
    decisions: u64,
    trace_digests: Vec<u64>,
    layouts: Vec<u64>,
    layout_sample_shift: u32,
    log_xor: u64,
    other_prop_violations: u64,
    // terms
    t_rstats: RStats,
    t_tape_mode: [u64; 4],
    t_twin_pairs: u64,
    t_twin_manifested: u64,
    t_unequal_pairs: u64,
    t_eq_evals: u64,
    t_hash_evals: u64,
    t_container_ops: u64,
    t_physical_dups: u64,
    t_keys: u64,
    t_nested_runs: u64,
    t_desc_nodes: u64,
    t_near: BTreeMap<&'static str, u64>,
    t_coop: [u64; 4],
    // sessions
    s: SessionsRunStats,
    restart_queries: u64,
    restart_disagreements: u64,
    restart_segments: u64,
    restart_runs: u64,
    // violating runs of the selected property in the current block: (run index, choices, violation)
    violating: Vec<(u64, Vec<u32>, Violation, Vec<u64>, bool)>,
}

impl Agg {
    fn absorb(&mut self, out: &RunOut, i: u64, decisions: usize) {
        self.runs += 1;
        self.decisions += decisions as u64;
        self.log_xor ^= splitmix(out.log.d.finish() ^ splitmix(i));
        match &out.stats {
            Stats::T(t) => {
                if t.aborted {
                    self.aborted += 1;
                }
                if t.nontrivial {
                    self.nontrivial_runs += 1;
                    self.trace_digests.push(t.trace_digest);
                }
                for l in &t.layouts {
                    if self.layout_sample_shift == 0 || (l >> (64 - self.layout_sample_shift)) == 0 {
                        self.layouts.push(*l);
                    }
                }
                self.t_rstats.add(&t.rstats);
                self.t_tape_mode[t.tape_mode] += 1;
                self.t_twin_pairs += t.twin_pairs;
                self.t_twin_manifested += t.twin_pairs_manifested;
                self.t_unequal_pairs += t.unequal_pairs;
                self.t_eq_evals += t.eq_evals;
                self.t_hash_evals += t.hash_evals;
                self.t_container_ops += t.container_ops;
                self.t_physical_dups += t.physical_duplicates;
                self.t_keys += t.keys_handed_out;
                self.t_nested_runs += t.nested_unordered as u64;
                self.t_desc_nodes += t.desc_nodes;
                for l in &t.near_miss_labels {
                    *self.t_near.entry(l).or_insert(0) += 1;
                }
                self.t_coop[0] += t.coop_runs;
                self.t_coop[1] += t.coop_yields;
                self.t_coop[2] += t.coop_switches;
                self.t_coop[3] += t.coop_stalled;
            }
            Stats::S(s) => {
                if s.nontrivial {
                    self.nontrivial_runs += 1;
                    self.trace_digests.push(s.trace_digest);
                }
                add_sessions(&mut self.s, s);
            }
        }
        if self.layouts.len() > 6_000_000 {
            self.layouts.sort_unstable();
            self.layouts.dedup();
        }
    }
    fn merge(&mut self, o: Agg) {
        self.runs += o.runs;
        self.nontrivial_runs += o.nontrivial_runs;
        self.aborted += o.aborted;
        self.decisions += o.decisions;
        self.trace_digests.extend(o.trace_digests);
        self.layouts.extend(o.layouts);
        self.log_xor ^= o.log_xor;
        self.other_prop_violations += o.other_prop_violations;
        self.t_rstats.add(&o.t_rstats);
        for i in 0..4 {
            self.t_tape_mode[i] += o.t_tape_mode[i];
        }
        self.t_twin_pairs += o.t_twin_pairs;
        self.t_twin_manifested += o.t_twin_manifested;
        self.t_unequal_pairs += o.t_unequal_pairs;
        self.t_eq_evals += o.t_eq_evals;
        self.t_hash_evals += o.t_hash_evals;
        self.t_container_ops += o.t_container_ops;
        self.t_physical_dups += o.t_physical_dups;
        self.t_keys += o.t_keys;
        self.t_nested_runs += o.t_nested_runs;
        self.t_desc_nodes += o.t_desc_nodes;
        for (k, v) in o.t_near {
            *self.t_near.entry(k).or_insert(0) += v;
        }
        for i in 0..4 {
            self.t_coop[i] += o.t_coop[i];
        }
        add_sessions(&mut self.s, &o.s);
        self.restart_queries += o.restart_queries;
        self.restart_disagreements += o.restart_disagreements;
        self.violating.extend(o.violating);
        if self.layouts.len() > 6_000_000 {
            self.layouts.sort_unstable();
            self.layouts.dedup();
        }
    }
}

fn add_sessions(a: &mut SessionsRunStats, s: &SessionsRunStats) {
    for i in 0..a.faults.len() {
        a.faults[i] += s.faults[i];
    }
    a.requests += s.requests;
    a.requests_faulty += s.requests_faulty;
    a.ops += s.ops;
    a.batches += s.batches;
    a.nested_batches += s.nested_batches;
    a.batch_items += s.batch_items;
    a.interleaved_steps += s.interleaved_steps;
    for i in 0..8 {
        a.calls[i] += s.calls[i];
    }
    a.calls_chars += s.calls_chars;
    a.calls_lex_fresh += s.calls_lex_fresh;
    a.alone_evals += s.alone_evals;
    a.observations += s.observations;
    a.repeats_in_batch += s.repeats_in_batch;
    a.same_len_variants += s.same_len_variants;
    a.cross_format_pairs += s.cross_format_pairs;
    a.long_sessions += s.long_sessions;
    a.soak_runs += s.soak_runs;
    a.other_calls += s.other_calls;
    a.fresh_thread_queries += s.fresh_thread_queries;
    a.space_variants += s.space_variants;
    a.calls_temp_format += s.calls_temp_format;
    a.coop_runs += s.coop_runs;
    a.coop_threads += s.coop_threads;
    a.coop_ops += s.coop_ops;
    a.coop_yields += s.coop_yields;
    a.coop_switches += s.coop_switches;
    a.coop_stalled += s.coop_stalled;
    for i in 0..8 {
        a.coop_sites[i] += s.coop_sites[i];
    }
    a.skipped_panicking += s.skipped_panicking;
    for m in 0..32 {
        for c in 0..4 {
            a.dirty_grid[m][c] += s.dirty_grid[m][c];
        }
    }
    a.dirty_items += s.dirty_items;
    a.after_unfinished_items += s.after_unfinished_items;
    for i in 0..5 {
        a.outcome_kinds[i] += s.outcome_kinds[i];
    }
    a.clients += s.clients;
}

// ---------------------------------------------------------------------------------------------
// options

pub struct Opts {
    pub prop: String,
    pub tier: String,
    pub runs: Option<u64>,
    pub workers: usize,
    pub seed: u64,
    pub evidence: Option<String>,
    pub replay_dir: String,
    pub known: Option<String>,
    pub dump_digests: bool,
    pub no_evidence: bool,
    pub segments: Option<u64>,
    pub extra_json: Option<String>,
}

fn parse_opts(args: &[String]) -> Result<Opts, String> {
    let mut o = Opts {
        prop: String::new(),
        tier: std::env::var("VERIF_TIER").unwrap_or_else(|_| "quick".into()),
        runs: None,
        workers: std::thread::available_parallelism().map(|n| n.get()).unwrap_or(4),
        seed: std::env::var("VERIF_SEED").ok().and_then(|s| s.trim().parse::<i128>().ok()).map(|v| v as u64).unwrap_or(1),
        evidence: None,
        replay_dir: "/verif/replays".into(),
        known: None,
        dump_digests: false,
        no_evidence: false,
        segments: None,
        extra_json: None,
    };
    let mut i = 0;
    while i < args.len() {
        let a = args[i].as_str();
        let mut val = || -> Result<String, String> {
            i += 1;
            args.get(i).cloned().ok_or_else(|| format!("missing value after {a}"))
        };
        match a {
            "--prop" => o.prop = val()?,
            "--tier" => o.tier = val()?,
            "--runs" => o.runs = Some(val()?.parse().map_err(|e| format!("--runs: {e}"))?),
            "--workers" => o.workers = val()?.parse().map_err(|e| format!("--workers: {e}"))?,
            "--seed" => o.seed = val()?.parse::<i128>().map_err(|e| format!("--seed: {e}"))? as u64,
            "--evidence" => o.evidence = Some(val()?),
            "--replay-dir" => o.replay_dir = val()?,
            "--known" => o.known = Some(val()?),
            "--segments" => o.segments = Some(val()?.parse().map_err(|e| format!("--segments: {e}"))?),
            "--extra-json" => o.extra_json = Some(val()?),
            "--dump-digests" => o.dump_digests = true,
            "--no-evidence" => o.no_evidence = true,
            other => return Err(format!("unknown option {other}")),
        }
        i += 1;
    }
    if SimKind::of_prop(&o.prop).is_none() {
        return Err(format!("--prop must be one of C06 C07 C08 (got {:?})", o.prop));
    }
    if o.tier != "quick" && o.tier != "thorough" {
        return Err(format!("--tier must be quick or thorough (got {:?})", o.tier));
    }
    o.workers = o.workers.max(1);
    Ok(o)
}

fn prop_static(p: &str) -> &'static str {
    match p {
        "C06" => "C06",
        "C07" => "C07",
        _ => "C08",
    }
}

// ---------------------------------------------------------------------------------------------
// known findings

struct Known {
    status: String,
    property: String,
    kind: String,
    needle: String,
    what: String,
}

fn load_known(path: &Option<String>) -> Result<Vec<Known>, String> {
    let Some(p) = path else { return Ok(vec![]) };
    let text = match std::fs::read_to_string(p) {
        Ok(t) => t,
        Err(_) => return Ok(vec![]),
    };
    let j = parse_json(&text).map_err(|e| format!("{p}: {e}"))?;
    let mut out = vec![];
    if let Some(arr) = j.get("findings").and_then(|f| f.as_arr()) {
        for f in arr {
            let g = |k: &str| f.get(k).and_then(|v| v.as_str()).unwrap_or("").to_string();
            out.push(Known { status: g("status"), property: g("property"), kind: g("kind"), needle: g("match"), what: g("what") });
        }
    }
    Ok(out)
}

// ---------------------------------------------------------------------------------------------
// restart oracle (C08): the same query in a fresh process must give the same outcome

fn hex(s: &str) -> String {
    s.as_bytes().iter().map(|b| format!("{b:02x}")).collect()
}
fn unhex(s: &str) -> Option<String> {
    if s.len() % 2 != 0 {
        return None;
    }
    let bytes: Option<Vec<u8>> = (0..s.len() / 2).map(|i| u8::from_str_radix(&s[2 * i..2 * i + 2], 16).ok()).collect();
    String::from_utf8(bytes?).ok()
}

pub fn cmd_oracle(args: &[String]) -> u8 {
    if args.len() != 3 {
        eprintln!("usage: narsim oracle ENTRY FORMAT HEXINPUT");
        return 2;
    }
    let (Ok(e), Ok(f), Some(s)) = (args[0].parse::<usize>(), args[1].parse::<usize>(), unhex(&args[2])) else {
        eprintln!("bad oracle arguments");
        return 2;
    };
    if e >= 8 || f >= 6 {
        return 2;
    }
    let o = sim_sessions::eval_entry(&Entry::from_idx(e), f, &s);
    println!("{}", o.wire());
    0
}

fn ask_fresh_process(e: &Entry, f: usize, s: &str) -> Result<String, String> {
    let exe = std::env::current_exe().map_err(|e| e.to_string())?;
    let out = std::process::Command::new(exe)
        .arg("oracle")
        .arg(e.idx().to_string())
        .arg(f.to_string())
        .arg(hex(s))
        .output()
        .map_err(|e| e.to_string())?;
    if !out.status.success() {
        return Err(format!("oracle process failed: {:?}", out.status));
    }
    Ok(String::from_utf8_lossy(&out.stdout).trim_end_matches('\n').to_string())
}

/// ask up to `max` of the run's queries of fresh processes; first disagreement is a violation
fn restart_check(queries: &[(Entry, usize, String, Outcome)], pick: u64, max: usize) -> Result<(u64, Option<Violation>), String> {
    if queries.is_empty() {
        return Ok((0, None));
    }
    let mut asked = 0;
    let n = queries.len();
    let start = (pick % n as u64) as usize;
    for k in 0..max.min(n) {
        let (e, f, s, o) = &queries[(start + k * 7) % n];
        if o.kind == 1 {
            continue;
        }
        // arguments cannot carry NUL; such inputs are skipped
        if s.contains('\0') {
            continue;
        }
        let fresh = ask_fresh_process(e, *f, s)?;
        asked += 1;
        if fresh.starts_with("1|") {
            continue;
        }
        if fresh != o.wire() {
            return Ok((
                asked,
                Some(Violation {
                    prop: "C08",
                    kind: "outcome-differs-from-fresh-process".into(),
                    message: format!(
                        "{} in {} of {:?}: this process (after its history) answered {}, a fresh process answers {}",
                        ENTRY_NAMES[e.idx()],
                        crate::formats::FORMAT_NAMES[*f],
                        s,
                        o.show,
                        fresh
                    ),
                }),
            ));
        }
    }
    Ok((asked, None))
}

// ---------------------------------------------------------------------------------------------
// process histories ("segments"): runs a..=b executed one after the other by ONE fresh
// single-threaded process; after each run a sample of its queries is re-asked of fresh processes.
// Deterministic by construction: the history of the process is exactly the run sequence.

pub struct SegFound {
    pub orig_from: u64,
    pub from: u64,
    pub to: u64,
    pub message: String,
}
struct SegResult {
    asked: u64,
    runs: u64,
    found: Option<SegFound>,
}

/// executes the history in THIS process (must be fresh); returns (runs, asked, first disagreement)
fn run_segment(prop: &str, seed: u64, from: u64, to: u64, per_run: usize, only_last: bool) -> Result<(u64, u64, Option<(u64, String)>), String> {
    let kind = SimKind::of_prop(prop).unwrap_or(SimKind::Sessions);
    let mut asked = 0;
    let mut runs = 0;
    if kind == SimKind::Terms {
        // the first thing this fresh process does with the library
        let mut ch = Choices::generate(run_seed(seed, 66, from));
        if let Some(v) = sim_terms::cold_start(&mut ch).into_iter().find(|v| v.prop == prop) {
            return Ok((0, 0, Some((from, format!("[{}] {}", v.kind, v.message)))));
        }
    }
    for i in from..=to {
        let rs = run_seed(seed, kind.id(), i);
        let mut ch = Choices::generate(rs);
        let out = run_once(kind, &mut ch, false);
        runs += 1;
        if only_last && i != to {
            continue;
        }
        // in a single-threaded process a violation inside the run is a function of the history too
        if let Some(v) = out.violations.iter().find(|v| v.prop == prop) {
            return Ok((runs, asked, Some((i, format!("[{}] {}", v.kind, v.message)))));
        }
        if let Stats::S(s) = &out.stats {
            let (n, v) = restart_check(&s.restart_queries, splitmix(rs), per_run)?;
            asked += n;
            if let Some(v) = v {
                return Ok((runs, asked, Some((i, format!("[{}] {}", v.kind, v.message)))));
            }
        }
    }
    Ok((runs, asked, None))
}

pub fn cmd_segment(args: &[String]) -> u8 {
    let mut seed = 1u64;
    let mut prop = "C08".to_string();
    let (mut from, mut to, mut per_run, mut only_last) = (0u64, 0u64, 3usize, false);
    let mut i = 0;
    while i < args.len() {
        let v = args.get(i + 1).cloned().unwrap_or_default();
        match args[i].as_str() {
            "--prop" => prop = v.clone(),
            "--seed" => seed = v.parse().unwrap_or(1),
            "--from" => from = v.parse().unwrap_or(0),
            "--to" => to = v.parse().unwrap_or(0),
            "--per-run" => per_run = v.parse().unwrap_or(3),
            "--only-last" => {
                only_last = true;
                i += 1;
                continue;
            }
            _ => {}
        }
        i += 2;
    }
    match run_segment(&prop, seed, from, to, per_run, only_last) {
        Ok((runs, asked, None)) => {
            println!("SEGMENT-DONE runs={runs} asked={asked}");
            0
        }
        Ok((runs, asked, Some((i, msg)))) => {
            println!("RESTART-DISAGREE run={i} {}", msg.replace('\n', " "));
            println!("SEGMENT-DONE runs={runs} asked={asked}");
            1
        }
        Err(e) => {
            eprintln!("narsim segment: {e}");
            2
        }
    }
}

fn spawn_segment(prop: &str, seed: u64, from: u64, to: u64, per_run: usize, only_last: bool) -> Result<(u64, u64, Option<(u64, String)>), String> {
    let exe = std::env::current_exe().map_err(|e| e.to_string())?;
    let mut cmd = std::process::Command::new(exe);
    cmd.arg("segment").arg("--prop").arg(prop).arg("--seed").arg(seed.to_string()).arg("--from").arg(from.to_string()).arg("--to").arg(to.to_string()).arg("--per-run").arg(per_run.to_string());
    if only_last {
        cmd.arg("--only-last");
    }
    let out = cmd.output().map_err(|e| e.to_string())?;
    let text = String::from_utf8_lossy(&out.stdout).to_string();
    let code = out.status.code().unwrap_or(2);
    if code == 2 || code > 2 {
        return Err(format!("segment process {from}..={to} failed: {}", String::from_utf8_lossy(&out.stderr)));
    }
    let mut runs = 0;
    let mut asked = 0;
    let mut dis = None;
    for l in text.lines() {
        if let Some(rest) = l.strip_prefix("RESTART-DISAGREE run=") {
            let (i, msg) = rest.split_once(' ').unwrap_or((rest, ""));
            dis = Some((i.parse().unwrap_or(to), msg.to_string()));
        } else if let Some(rest) = l.strip_prefix("SEGMENT-DONE runs=") {
            let (r, a) = rest.split_once(" asked=").unwrap_or((rest, "0"));
            runs = r.parse().unwrap_or(0);
            asked = a.parse().unwrap_or(0);
        }
    }
    Ok((runs, asked, dis))
}

fn segments_phase(opts: &Opts, n_seg: u64, seg_len: u64, per_run: usize) -> Result<SegResult, String> {
    let counter = AtomicU64::new(0);
    let results: Vec<Result<(u64, (u64, u64, Option<(u64, String)>)), String>> = std::thread::scope(|sc| {
        let hs: Vec<_> = (0..opts.workers)
            .map(|_| {
                let counter = &counter;
                sc.spawn(move || {
                    let mut out = vec![];
                    loop {
                        let sidx = counter.fetch_add(1, Ordering::Relaxed);
                        if sidx >= n_seg {
                            break;
                        }
                        let from = sidx * seg_len;
                        let to = from + seg_len - 1;
                        out.push(spawn_segment(&opts.prop, opts.seed, from, to, per_run, false).map(|r| (sidx, r)));
                    }
                    out
                })
            })
            .collect();
        hs.into_iter().flat_map(|h| h.join().expect("segment thread")).collect()
    });
    let mut asked = 0;
    let mut runs = 0;
    let mut first: Option<(u64, u64, String)> = None; // (segment, run, message)
    for r in results {
        let (sidx, (r_runs, r_asked, dis)) = r?;
        asked += r_asked;
        runs += r_runs;
        if let Some((i, msg)) = dis {
            if first.as_ref().map_or(true, |f| sidx < f.0) {
                first = Some((sidx, i, msg));
            }
        }
    }
    let Some((sidx, to, msg)) = first else {
        return Ok(SegResult { asked, runs, found: None });
    };
    // minimise the history: the shortest suffix (by doubling) that still disagrees after run `to`
    let orig_from = sidx * seg_len;
    let mut best = (orig_from, msg);
    let mut k = 0u64;
    loop {
        let from = to.saturating_sub(k).max(orig_from);
        if from == orig_from {
            break;
        }
        let (_, a, dis) = spawn_segment(&opts.prop, opts.seed, from, to, per_run, true)?;
        asked += a;
        if let Some((_, m)) = dis {
            best = (from, m);
            break;
        }
        k = if k == 0 { 1 } else { k * 2 };
    }
    Ok(SegResult { asked, runs, found: Some(SegFound { orig_from, from: best.0, to, message: best.1 }) })
}

// ---------------------------------------------------------------------------------------------
// thread histories: a run that fails only after other runs on the same thread

pub struct HistFound {
    pub runs: Vec<u64>,
    pub original_len: usize,
    pub kind: String,
    pub message: String,
}

/// executes the listed runs one after the other on THIS thread; reports a violation of `prop`
/// in the LAST run
fn run_history(kind: SimKind, prop: &str, seed: u64, runs: &[u64]) -> Option<Violation> {
    let mut last = None;
    for (n, i) in runs.iter().enumerate() {
        let mut ch = Choices::generate(run_seed(seed, kind.id(), *i));
        let out = run_once(kind, &mut ch, false);
        if n + 1 == runs.len() {
            last = out.violations.into_iter().find(|v| v.prop == prop);
        }
    }
    last
}

pub fn cmd_history(args: &[String]) -> u8 {
    let mut prop = String::new();
    let mut seed = 1u64;
    let mut runs: Vec<u64> = vec![];
    let mut i = 0;
    while i + 1 < args.len() {
        match args[i].as_str() {
            "--prop" => prop = args[i + 1].clone(),
            "--seed" => seed = args[i + 1].parse().unwrap_or(1),
            "--runs" => runs = args[i + 1].split(',').filter_map(|x| x.parse().ok()).collect(),
            _ => {}
        }
        i += 2;
    }
    let Some(kind) = SimKind::of_prop(&prop) else { return 2 };
    match run_history(kind, &prop, seed, &runs) {
        Some(v) => {
            println!("HISTORY-VIOLATION kind={} {}", v.kind, v.message.replace('\n', " "));
            1
        }
        None => {
            println!("HISTORY-OK");
            0
        }
    }
}

fn spawn_history(opts: &Opts, prop: &str, runs: &[u64]) -> Result<Option<(String, String)>, String> {
    let exe = std::env::current_exe().map_err(|e| e.to_string())?;
    let list = runs.iter().map(|r| r.to_string()).collect::<Vec<_>>().join(",");
    let out = std::process::Command::new(exe).arg("history").arg("--prop").arg(prop).arg("--seed").arg(opts.seed.to_string()).arg("--runs").arg(list).output().map_err(|e| e.to_string())?;
    let text = String::from_utf8_lossy(&out.stdout);
    for l in text.lines() {
        if let Some(rest) = l.strip_prefix("HISTORY-VIOLATION kind=") {
            let (k, m) = rest.split_once(' ').unwrap_or((rest, ""));
            return Ok(Some((k.to_string(), m.to_string())));
        }
    }
    match out.status.code() {
        Some(0) | Some(1) => Ok(None),
        _ => Err(format!("history process failed: {}", String::from_utf8_lossy(&out.stderr))),
    }
}

/// `hist` = the runs the worker thread executed, the failing one last
fn history_reproduce(opts: &Opts, prop: &str, hist: &[u64]) -> Result<Option<HistFound>, String> {
    let Some((mut kind, mut message)) = spawn_history(opts, prop, hist)? else { return Ok(None) };
    let original_len = hist.len();
    let last = *hist.last().unwrap();
    let mut prefix: Vec<u64> = hist[..hist.len() - 1].to_vec();
    // delta debugging over the prefix (each attempt is a fresh process)
    let mut attempts = 0;
    let mut chunk = prefix.len().div_ceil(2).max(1);
    while !prefix.is_empty() && attempts < 60 {
        let mut shrunk = false;
        let mut at = 0;
        while at < prefix.len() && attempts < 60 {
            let end = (at + chunk).min(prefix.len());
            let mut cand: Vec<u64> = prefix[..at].to_vec();
            cand.extend_from_slice(&prefix[end..]);
            cand.push(last);
            attempts += 1;
            if let Some((k, m)) = spawn_history(opts, prop, &cand)? {
                cand.pop();
                prefix = cand;
                kind = k;
                message = m;
                shrunk = true;
            } else {
                at = end;
            }
        }
        if chunk == 1 && !shrunk {
            break;
        }
        chunk = (chunk / 2).max(1);
    }
    let mut runs = prefix;
    runs.push(last);
    Ok(Some(HistFound { runs, original_len, kind, message }))
}

// ---------------------------------------------------------------------------------------------
// the batch

fn default_runs(kind: SimKind, tier: &str) -> u64 {
    match (kind, tier) {
        (SimKind::Terms, "quick") => 80_000,
        (SimKind::Terms, _) => 4_000_000,
        (SimKind::Sessions, "quick") => 60_000,
        (SimKind::Sessions, _) => 3_000_000,
    }
}

pub fn cmd_run(args: &[String]) -> u8 {
    let opts = match parse_opts(args) {
        Ok(o) => o,
        Err(e) => {
            eprintln!("narsim: {e}");
            return 2;
        }
    };
    match run_batch(&opts) {
        Ok(code) => code,
        Err(e) => {
            eprintln!("narsim: harness error: {e}");
            2
        }
    }
}

struct Found {
    run_index: u64,
    original_len: usize,
    used_len: usize,
    executions: u64,
    violation: Violation,
    path: String,
}

/// one run on a fresh thread: thread-local state of the library under test starts clean
fn run_fresh_thread(kind: SimKind, data: &[u32], verbose: bool) -> RunOut {
    std::thread::scope(|sc| {
        sc.spawn(|| {
            let mut ch = Choices::replay(data.to_vec());
            run_once(kind, &mut ch, verbose)
        })
        .join()
        .expect("simulation thread")
    })
}

#[allow(clippy::too_many_arguments)]
fn write_run_replay(path: &str, opts: &Opts, kind: SimKind, prop: &str, i: u64, v: &Violation, data: &[u32], original_len: usize, executions: u64, narrative: &[String]) -> Result<(), String> {
    let j = J::obj(vec![
        ("property", J::s(prop)),
        ("kind", J::s(v.kind.clone())),
        ("sim", J::s(kind.name())),
        ("master_seed", J::u(opts.seed)),
        ("run_index", J::u(i)),
        ("run_seed", J::s(format!("{:#x}", run_seed(opts.seed, kind.id(), i)))),
        ("hooked_build", J::Bool(HOOKED)),
        ("message", J::s(v.message.clone())),
        ("choices", J::Arr(data.iter().map(|c| J::u(*c as u64)).collect())),
        ("original_choices_len", J::u(original_len as u64)),
        ("minimised_choices_len", J::u(data.len() as u64)),
        ("minimise_executions", J::u(executions)),
        ("narrative", J::strs(narrative.iter().cloned())),
        ("replay_cmd", J::s(format!("./check {prop} --replay {path}"))),
    ]);
    std::fs::write(path, j.to_string_pretty()).map_err(|e| format!("{path}: {e}"))
}

/// does `narsim replay <path>` report the violation in a fresh process? (up to `attempts` tries:
/// the simulator is deterministic, but a tree under test may draw OS randomness)
fn child_replays(path: &str, attempts: u32) -> Result<bool, String> {
    let exe = std::env::current_exe().map_err(|e| e.to_string())?;
    for _ in 0..attempts {
        let out = std::process::Command::new(&exe).arg("replay").arg(path).output().map_err(|e| e.to_string())?;
        match out.status.code() {
            Some(1) => return Ok(true),
            Some(0) => {}
            c => return Err(format!("replay process for {path} exited with {c:?}: {}", String::from_utf8_lossy(&out.stderr))),
        }
    }
    Ok(false)
}

fn run_batch(opts: &Opts) -> Result<u8, String> {
    let kind = SimKind::of_prop(&opts.prop).unwrap();
    let prop = prop_static(&opts.prop);
    let total = opts.runs.unwrap_or_else(|| default_runs(kind, &opts.tier));
    let known = load_known(&opts.known)?;
    let t0 = Instant::now();
    println!("narsim: property={prop} sim={} tier={} VERIF_SEED={} runs={total} workers={} hooked_build={HOOKED}", kind.name(), opts.tier, opts.seed, opts.workers);

    let mut agg = Agg::default();
    agg.layout_sample_shift = if total > 500_000 { 4 } else { 0 };
    let shift = agg.layout_sample_shift;
    let block: u64 = 4096;
    let mut start = 0u64;
    let mut known_lines: Vec<String> = vec![];
    let mut known_matched = 0u64;
    let mut found: Option<Found> = None;
    let mut digests: Vec<(u64, u64)> = vec![];
    let mut harness_err: Option<String> = None;
    let mut hist_found: Option<HistFound> = None;
    let mut unreproduced = 0u64;
    let mut unreproduced_note: Option<String> = None;

    while start < total && found.is_none() && hist_found.is_none() && known_matched < 200 {
        let end = (start + block).min(total);
        let counter = AtomicU64::new(start);
        let parts: Vec<(Agg, Vec<(u64, u64)>, Option<String>)> = std::thread::scope(|sc| {
            let handles: Vec<_> = (0..opts.workers)
                .map(|_| {
                    let counter = &counter;
                    sc.spawn(move || {
                        let mut a = Agg::default();
                        a.layout_sample_shift = shift;
                        let mut dg = vec![];
                        let err: Option<String> = None;
                        // the runs this worker thread executed so far (its thread-local history)
                        let mut hist: Vec<u64> = vec![];
                        loop {
                            let i = counter.fetch_add(1, Ordering::Relaxed);
                            if i >= end {
                                break;
                            }
                            hist.push(i);
                            let seed = run_seed(opts.seed, kind.id(), i);
                            let mut ch = Choices::generate(seed);
                            let out = run_once(kind, &mut ch, false);
                            let data = ch.into_data();
                            a.absorb(&out, i, data.len());
                            if opts.dump_digests {
                                dg.push((i, out.log.d.finish()));
                            }
                            let mut mine = None;
                            for v in out.violations {
                                if v.prop == prop {
                                    if mine.is_none() {
                                        mine = Some(v);
                                    }
                                } else {
                                    a.other_prop_violations += 1;
                                }
                            }
                            if let Some(v) = mine {
                                if a.violating.len() < 64 {
                                    // does it fail again at once, on a fresh thread? (a cheap first
                                    // sign that the violation belongs to the run itself)
                                    let again = run_fresh_thread(kind, &data, false).violations.iter().any(|x| x.prop == prop);
                                    a.violating.push((i, data, v, hist.clone(), again));
                                }
                            }
                        }
                        (a, dg, err)
                    })
                })
                .collect();
            handles.into_iter().map(|h| h.join().expect("worker thread")).collect()
        });
        for (a, dg, err) in parts {
            agg.merge(a);
            digests.extend(dg);
            if let Some(e) = err {
                harness_err = Some(e);
            }
        }
        if let Some(e) = &harness_err {
            return Err(e.clone());
        }
        // violations of this block, lowest run index first (deterministic choice)
        let mut v = std::mem::take(&mut agg.violating);
        v.sort_by_key(|x| x.0);
        // runs whose violation is a function of their own decisions first (cheap test: replay on a
        // fresh thread of this process); the others - seen only because of what happened before on
        // the thread or elsewhere in the process - are tried afterwards, and only a few of them
        let (mut own, mut other): (Vec<_>, Vec<_>) = v.into_iter().partition(|x| x.4);
        // (once three of those could not be replayed, later ones are not tried any more: the search
        //  goes on for a run that fails on its own)
        // violations raised by the cooperative-scheduler phases are deterministic by construction
        // (one thread runs at a time): try those first, they are the ones that will replay
        own.sort_by_key(|x| (!x.2.kind.ends_with("-concurrent-callers"), x.0));
        own.truncate(8);
        other.truncate(if unreproduced >= 3 { 0 } else { 3 });
        own.extend(other);
        for (i, data, viol, hist, again) in own {
            let kind_s = viol.kind.clone();
            std::fs::create_dir_all(&opts.replay_dir).map_err(|e| format!("{}: {e}", opts.replay_dir))?;
            let path = format!("{}/{}-seed{}-run{}.json", opts.replay_dir, prop, opts.seed, i);
            // (A) is the violation a function of the run's own decisions? Ask a fresh process.
            let narrative0 = run_fresh_thread(kind, &data, true).log.lines;
            write_run_replay(&path, opts, kind, prop, i, &viol, &data, data.len(), 0, &narrative0)?;
            if !child_replays(&path, 3)? {
                let _ = std::fs::remove_file(&path);
                if unreproduced >= 3 {
                    // failed again in this (noisy, multi-threaded) process but not in a quiet one
                    let _ = again;
                    continue;
                }
                // (B) the outcome depended on what the worker thread did before: replay that
                // history in a fresh single-threaded process, then minimise the history
                match history_reproduce(opts, prop, &hist)? {
                    Some(hf) => {
                        let hit = known.iter().find(|k| k.status == "open" && k.property == prop && k.kind == hf.kind && (k.needle.is_empty() || hf.message.contains(&k.needle)));
                        if let Some(k) = hit {
                            known_matched += 1;
                            let line = format!("KNOWN-FINDING: property={prop} {}", k.what);
                            if !known_lines.contains(&line) {
                                println!("{line}");
                                known_lines.push(line);
                            }
                            continue;
                        }
                        hist_found = Some(hf);
                        break;
                    }
                    None => {
                        unreproduced += 1;
                        if unreproduced_note.is_none() {
                            unreproduced_note = Some(format!("run {i}: {} {}: {}", viol.prop, viol.kind, viol.message));
                        }
                        if unreproduced >= 3 {
                            break;
                        }
                        continue;
                    }
                }
            }
            // minimise: a candidate is kept only if the same (property, kind) fires twice in a row,
            // each time on a fresh thread (so that thread-local leftovers of one candidate cannot
            // decide the next)
            let min = minimise(
                data.clone(),
                |cand| {
                    (0..2).all(|_| {
                        let out = run_fresh_thread(kind, cand, false);
                        out.violations.iter().any(|x| x.prop == prop && x.kind == kind_s)
                    })
                },
                3000,
            );
            let out = run_fresh_thread(kind, &min.data, true);
            let mut final_v = out.violations.iter().find(|x| x.prop == prop && x.kind == kind_s).or_else(|| out.violations.iter().find(|x| x.prop == prop)).cloned();
            let mut used = min.data.clone();
            let mut narrative = out.log.lines;
            if let Some(fv) = &final_v {
                write_run_replay(&path, opts, kind, prop, i, fv, &used, data.len(), min.executions, &narrative)?;
            }
            if final_v.is_none() || !child_replays(&path, 3)? {
                // the minimised sequence is not robust (the tree under test behaves
                // non-deterministically): report the original sequence instead
                used = data.clone();
                narrative = narrative0;
                final_v = Some(viol.clone());
                write_run_replay(&path, opts, kind, prop, i, &viol, &used, data.len(), min.executions, &narrative)?;
            }
            let final_v = final_v.unwrap();
            // known finding?
            let hit = known.iter().find(|k| k.status == "open" && k.property == prop && k.kind == final_v.kind && (k.needle.is_empty() || final_v.message.contains(&k.needle)));
            if let Some(k) = hit {
                known_matched += 1;
                let _ = std::fs::remove_file(&path);
                let line = format!("KNOWN-FINDING: property={prop} {}", k.what);
                if !known_lines.contains(&line) {
                    println!("{line}");
                    known_lines.push(line);
                }
                continue;
            }
            found = Some(Found { run_index: i, original_len: data.len(), used_len: used.len(), executions: min.executions, violation: final_v, path });
            break;
        }
        start = end;
    }

    // ---- restart oracle (C08): process histories replayed in fresh processes ----
    let mut seg_found: Option<SegFound> = None;
    // (also the first resort when the threaded batch saw something that does not replay: state that
    //  accumulates in the PROCESS shows up again in a single-threaded process history, and there it
    //  is a function of the run sequence)
    if found.is_none() && hist_found.is_none() && !opts.dump_digests {
        let (n_seg, seg_len) = match (opts.segments, opts.tier.as_str(), kind) {
            (Some(n), _, _) => (n, 80),
            (None, "quick", SimKind::Terms) => (opts.workers as u64 * 4, if unreproduced > 0 { 150 } else { 12 }),
            (None, _, SimKind::Terms) => (opts.workers as u64 * 32, if unreproduced > 0 { 150 } else { 12 }),
            (None, "quick", _) => (opts.workers as u64 * 2, 80),
            (None, _, _) => (opts.workers as u64 * 24, 120),
        };
        let r = segments_phase(opts, n_seg, seg_len, 2)?;
        agg.restart_queries = r.asked;
        agg.restart_segments = n_seg;
        agg.restart_runs = r.runs;
        if let Some(f) = r.found {
            let hit = known.iter().find(|k| k.status == "open" && k.property == prop && f.message.contains(&format!("[{}]", k.kind)) && (k.needle.is_empty() || f.message.contains(&k.needle)));
            if let Some(k) = hit {
                let line = format!("KNOWN-FINDING: property={prop} {}", k.what);
                println!("{line}");
                known_lines.push(line);
            } else {
                agg.restart_disagreements = 1;
                seg_found = Some(f);
            }
        }
    }

    let wall = t0.elapsed().as_secs_f64();
    let mut exit = 0u8;
    let mut violations_n = 0;
    let mut replay_path = String::new();
    if let Some(h) = &hist_found {
        violations_n = 1;
        exit = 1;
        std::fs::create_dir_all(&opts.replay_dir).map_err(|e| format!("{}: {e}", opts.replay_dir))?;
        let last = *h.runs.last().unwrap_or(&0);
        replay_path = format!("{}/{}-seed{}-threadhistory-run{}.json", opts.replay_dir, prop, opts.seed, last);
        let j = J::obj(vec![
            ("property", J::s(prop)),
            ("kind", J::s(h.kind.clone())),
            ("sim", J::s(kind.name())),
            ("master_seed", J::u(opts.seed)),
            ("hooked_build", J::Bool(HOOKED)),
            ("message", J::s(h.message.clone())),
            ("history_runs", J::Arr(h.runs.iter().map(|r| J::u(*r)).collect())),
            ("original_history_len", J::u(h.original_len as u64)),
            ("narrative", J::strs([
                format!("a fresh single-threaded process executes simulated runs {:?} (seeds derived from VERIF_SEED={}) one after the other on one thread", h.runs, opts.seed),
                format!("the last run ({last}) does not fail on its own; it fails after this history (state left behind on the thread / in the process)"),
                h.message.clone(),
            ])),
            ("replay_cmd", J::s(format!("./check {prop} --replay {replay_path}"))),
        ]);
        std::fs::write(&replay_path, j.to_string_pretty()).map_err(|e| format!("{replay_path}: {e}"))?;
        println!("violation in run {last} after thread history {:?} (kind {}): {}", h.runs, h.kind, h.message);
        println!("minimised history {} -> {} runs", h.original_len, h.runs.len());
        println!("VIOLATION property={prop} replay={replay_path}");
    }
    if let Some(f) = &seg_found {
        violations_n = 1;
        exit = 1;
        std::fs::create_dir_all(&opts.replay_dir).map_err(|e| format!("{}: {e}", opts.replay_dir))?;
        replay_path = format!("{}/{}-seed{}-history{}-{}.json", opts.replay_dir, prop, opts.seed, f.from, f.to);
        let j = J::obj(vec![
            ("property", J::s(prop)),
            ("kind", J::s("violation-after-process-history")),
            ("sim", J::s(kind.name())),
            ("master_seed", J::u(opts.seed)),
            ("hooked_build", J::Bool(HOOKED)),
            ("message", J::s(f.message.clone())),
            ("segment", J::obj(vec![("seed", J::u(opts.seed)), ("from", J::u(f.from)), ("to", J::u(f.to)), ("per_run", J::u(2))])),
            ("original_history", J::s(format!("runs {}..={} in one fresh single-threaded process", f.orig_from, f.to))),
            ("narrative", J::strs([
                format!("a fresh single-threaded process executes simulated runs {}..={} (seeds derived from VERIF_SEED={}) one after the other", f.from, f.to, opts.seed),
                format!("run {} then fails one of its own checks, or (C08) one of its queries re-asked of a fresh OS process (one query per process) is answered differently", f.to),
                f.message.clone(),
            ])),
            ("replay_cmd", J::s(format!("./check {prop} --replay {replay_path}"))),
        ]);
        std::fs::write(&replay_path, j.to_string_pretty()).map_err(|e| format!("{replay_path}: {e}"))?;
        println!("violation after process history of runs {}..={}: {}", f.from, f.to, f.message);
        println!("minimised history {}..={} -> {}..={}", f.orig_from, f.to, f.from, f.to);
        println!("VIOLATION property={prop} replay={replay_path}");
    }
    if let Some(f) = &found {
        violations_n = 1;
        exit = 1;
        replay_path = f.path.clone();
        println!("violation in run {} (kind {}): {}", f.run_index, f.violation.kind, f.violation.message);
        println!("minimised {} -> {} decisions in {} executions; the replay file reproduces in a fresh process", f.original_len, f.used_len, f.executions);
        println!("VIOLATION property={prop} replay={replay_path}");
    }

    if opts.dump_digests {
        digests.sort();
        for (i, d) in &digests {
            println!("DIGEST run={i} log={d:#018x}");
        }
    }
    println!("DIGEST-ALL runs={} xor={:#018x}", agg.runs, agg.log_xor);

    // ---- evidence ----
    agg.trace_digests.sort_unstable();
    agg.trace_digests.dedup();
    agg.layouts.sort_unstable();
    agg.layouts.dedup();
    if !opts.no_evidence {
        let path = opts.evidence.clone().unwrap_or_else(|| format!("/verif/evidence/{prop}.json"));
        let ev = evidence_json(opts, kind, prop, &agg, wall, violations_n, &known_lines, &replay_path, total)?;
        if let Some(dir) = std::path::Path::new(&path).parent() {
            std::fs::create_dir_all(dir).map_err(|e| e.to_string())?;
        }
        std::fs::write(&path, ev.to_string_pretty()).map_err(|e| format!("{path}: {e}"))?;
    }
    println!(
        "narsim: {} runs in {:.2}s ({:.0} runs/h), {} nontrivial ({} distinct), violations={}, known-finding lines={}, aborted={}",
        agg.runs,
        wall,
        agg.runs as f64 / wall.max(1e-9) * 3600.0,
        agg.nontrivial_runs,
        agg.trace_digests.len(),
        violations_n,
        known_lines.len(),
        agg.aborted
    );
    if exit == 0 && unreproduced > 0 {
        // (nothing replayable came out of the process histories either)
        // seen while 16 worker threads were using the library at the same time, but neither the run
        // alone nor its thread history reproduces it in a fresh process: state shared ACROSS
        // threads, which the native harness does not schedule. Not a verdict by itself: exit 3
        // tells the driver script to hand over to the Miri thread component, whose interleavings
        // are a function of the Miri seed and therefore replay.
        println!(
            "UNREPRODUCED property={prop} observations={unreproduced} (a violation was observed under concurrent use of the library by the worker threads but does not replay single-threaded) first: {}",
            unreproduced_note.unwrap_or_default()
        );
        return Ok(3);
    }
    if agg.runs > 100 && agg.aborted * 20 > agg.runs {
        return Err(format!("{} of {} runs aborted while building their workload", agg.aborted, agg.runs));
    }
    Ok(exit)
}

fn sample_runs(opts: &Opts, kind: SimKind, want: usize, limit: u64) -> Vec<J> {
    // the first `want` nontrivial runs (by run index), re-executed with the narrative switched on
    let mut out = vec![];
    let mut i = 0u64;
    while out.len() < want && i < limit.min(5000) {
        let seed = run_seed(opts.seed, kind.id(), i);
        let mut ch = Choices::generate(seed);
        let r = run_once(kind, &mut ch, true);
        let nontrivial = match &r.stats {
            Stats::T(t) => t.nontrivial,
            Stats::S(s) => s.nontrivial,
        };
        if nontrivial {
            let mut lines = r.log.lines;
            if lines.len() > 60 {
                lines.truncate(60);
                lines.push("… (truncated)".into());
            }
            out.push(J::obj(vec![
                ("run_index", J::u(i)),
                ("run_seed", J::s(format!("{seed:#x}"))),
                ("decisions", J::u(ch.consumed().len() as u64)),
                ("events", J::strs(lines)),
            ]));
        }
        i += 1;
    }
    if out.is_empty() {
        out.push(J::s("no nontrivial run among the first runs"));
    }
    out
}

#[allow(clippy::too_many_arguments)]
fn evidence_json(opts: &Opts, kind: SimKind, prop: &'static str, agg: &Agg, wall: f64, violations: i128, known_lines: &[String], replay_path: &str, planned: u64) -> Result<J, String> {
    let runs_per_hour = agg.runs as f64 / wall.max(1e-9) * 3600.0;
    let samples = sample_runs(opts, kind, 3, agg.runs);
    let mut cov: Vec<(&str, J)> = vec![
        ("evaluations", J::u(agg.runs)),
        ("distinct_nontrivial", J::u(agg.trace_digests.len() as u64)),
    ];
    let mut assumptions: Vec<String> = vec![];
    let mut extra_violations: i128 = 0;
    match kind {
        SimKind::Terms => {
            cov.push(("rule", J::s("one evaluation = one simulated run: a random description tree over the 30 term constructors realised 2-4 times (plus 0-3 near-miss descriptions) under independently drawn realisation schedules (route, insertion order, duplicates, capacity history, operand order) with the hasher key of every unordered container handed out by the simulator's key tape; a run is non-trivial when at least one pair of realisations that denote the same term ended up with different physical layouts (different iteration order of an equal set, or swapped operands of a symmetric statement); distinct = distinct digest of (canonical descriptions, set of physical layouts)")));
            cov.push(("samples", J::Arr(samples)));
            cov.push(("runs_planned", J::u(planned)));
            cov.push(("runs_per_hour", J::Num(runs_per_hour.round())));
            cov.push(("seeds", J::s(format!("VERIF_SEED={} -> run seeds splitmix(seed, sim, i) for i in 0..{}", opts.seed, agg.runs))));
            cov.push(("decisions_total", J::u(agg.decisions)));
            cov.push(("simulated_time", J::s(format!("the system has no clock; logical steps = {} recorded decisions, {} equality evaluations, {} hash evaluations, {} container operations", agg.decisions, agg.t_eq_evals, agg.t_hash_evals, agg.t_container_ops))));
            cov.push(("fault_counts", J::Obj(agg.t_rstats.pairs().into_iter().map(|(k, v)| (k.to_string(), J::u(v))).collect())));
            cov.push(("key_tape_mode_runs", J::Obj((0..4).map(|i| (TAPE_MODES[i].to_string(), J::u(agg.t_tape_mode[i]))).collect())));
            cov.push(("hasher_keys_handed_out", J::u(agg.t_keys)));
            cov.push(("near_miss_mutations", J::Obj(agg.t_near.iter().map(|(k, v)| (k.to_string(), J::u(*v))).collect())));
            let scale = 1u64 << agg.layout_sample_shift;
            cov.push((
                "states_reached",
                J::obj(vec![
                    ("measure", J::s(if scale == 1 { "distinct physical layouts (iteration-order signatures of all unordered nodes + stored operand order) over all realised values, exact".to_string() } else { format!("distinct physical layouts, estimated from a 1/{scale} digest-prefix sample") })),
                    ("count", J::u(agg.layouts.len() as u64 * scale)),
                ]),
            ));
            cov.push((
                "concurrent_caller_phases",
                J::obj(vec![("runs", J::u(agg.t_coop[0])), ("yield_points_passed_in_hash_and_eq", J::u(agg.t_coop[1])), ("thread_switches_decided_by_the_scheduler", J::u(agg.t_coop[2])), ("stalled_runs_without_verdict", J::u(agg.t_coop[3]))]),
            ));
            cov.push((
                "process_histories",
                J::obj(vec![
                    ("fresh_single_threaded_processes", J::u(agg.restart_segments)),
                    ("runs_in_them", J::u(agg.restart_runs)),
                    ("each_starts_with", J::s("a cold start: one value of every constructor family built, hashed and stored in a drawn order as the first use of the library in that process")),
                ]),
            ));
            cov.push(("twin_pairs", J::u(agg.t_twin_pairs)));
            cov.push(("twin_pairs_with_different_layout", J::u(agg.t_twin_manifested)));
            cov.push(("unequal_pairs_checked", J::u(agg.t_unequal_pairs)));
            cov.push(("runs_with_nested_unordered_structure", J::u(agg.t_nested_runs)));
            cov.push(("description_nodes_total", J::u(agg.t_desc_nodes)));
            cov.push(("equality_evaluations", J::u(agg.t_eq_evals)));
            cov.push(("hash_evaluations", J::u(agg.t_hash_evals)));
            cov.push(("container_operations", J::u(agg.t_container_ops)));
            cov.push(("physical_duplicates_seen_inside_sets", J::u(agg.t_physical_dups)));
            cov.push(("violations_of_the_sibling_property_seen", J::u(agg.other_prop_violations)));
            cov.push((
                "components",
                J::obj(vec![
                    ("real", J::strs(["Term constructors", "push_components", "Clone", "extract_terms", "set_atom_name", "PartialEq/Eq for Term", "Hash for Term", "derived PartialEq of Sentence/Task/Narsese", "enum formatter + enum parser (3 formats)", "lexical parser (static instances) + fold", "std HashSet/HashMap (hashbrown)"])),
                    ("stub", if HOOKED { J::strs(["std RandomState inside TermSetType -> narsese::verif_hooks::SimBuildHasher (keys from the simulator's tape)"]) } else { J::strs(Vec::<String>::new()) }),
                ]),
            ));
            assumptions.push("the hooked build (--cfg narsese_verif) differs from the shipped build only in the hasher type of TermSetType and in new_term_set_type(); an edit confined to those two lines is seen only by the Miri component (un-hooked build)".into());
            assumptions.push("the reference model (canonical form with BTreeSet / sorted symmetric operands) encodes exactly the constructor lists of the property statement".into());
        }
        SimKind::Sessions => {
            let s = &agg.s;
            let mut cells = 0u64;
            let mut grid: Vec<(String, J)> = vec![];
            for m in 0..32 {
                let row: u64 = s.dirty_grid[m].iter().sum();
                for c in 0..4 {
                    if s.dirty_grid[m][c] > 0 {
                        cells += 1;
                    }
                }
                if row > 0 {
                    grid.push((format!("{m:05b}"), J::Arr(s.dirty_grid[m].iter().map(|v| J::u(*v)).collect())));
                }
            }
            cov.push(("rule", J::s("one evaluation = one simulated run: 1-4 clients with queues of session operations (parse_multi batches of 1-8 requests, stateless enum / char-vector / side entry points, lexical parse / parse_term / parse+fold on the shared statics and on fresh instances) interleaved by a seeded scheduler, including nested sessions started from inside another session's input iterator; requests are well-formed surface strings of the three formats passed through request faults; a run is non-trivial when some request was parsed by a session whose previous request left at least one of the five slots filled (reported by the reset_to probe; un-hooked build: whose previous request ended in Err or a bare term); distinct = distinct digest of the executed operation/request history")));
            cov.push(("samples", J::Arr(samples)));
            cov.push(("runs_planned", J::u(planned)));
            cov.push(("runs_per_hour", J::Num(runs_per_hour.round())));
            cov.push(("seeds", J::s(format!("VERIF_SEED={} -> run seeds splitmix(seed, sim, i) for i in 0..{}", opts.seed, agg.runs))));
            cov.push(("decisions_total", J::u(agg.decisions)));
            cov.push(("simulated_time", J::s(format!("the system has no clock; logical steps = {} operations, {} session inputs, {} observations", s.ops, s.batch_items, s.observations))));
            let mut fc: Vec<(String, J)> = (0..FAULT_NAMES.len()).map(|i| (FAULT_NAMES[i].to_string(), J::u(s.faults[i]))).collect();
            fc.push(("repeat_request_in_session".into(), J::u(s.repeats_in_batch)));
            fc.push(("same_input_other_format_back_to_back".into(), J::u(s.cross_format_pairs)));
            fc.push(("same_length_variant_of_previous_request".into(), J::u(s.same_len_variants)));
            fc.push(("blank_more_or_less_variant_of_previous_request".into(), J::u(s.space_variants)));
            fc.push(("interleaved_operation_inside_session".into(), J::u(s.interleaved_steps)));
            fc.push(("nested_session".into(), J::u(s.nested_batches)));
            fc.push(("long_lived_session_30_to_150_inputs".into(), J::u(s.long_sessions)));
            fc.push(("soak_run_150_to_500_calls_of_one_entry_point".into(), J::u(s.soak_runs)));
            cov.push(("fault_counts", J::Obj(fc)));
            cov.push(("requests", J::u(s.requests)));
            cov.push(("requests_faulty", J::u(s.requests_faulty)));
            cov.push(("operations", J::u(s.ops)));
            cov.push(("sessions", J::u(s.batches)));
            cov.push(("session_inputs", J::u(s.batch_items)));
            cov.push(("session_inputs_after_dirty_state", J::u(s.dirty_items)));
            cov.push(("session_inputs_after_unfinished_predecessor", J::u(s.after_unfinished_items)));
            cov.push(("stateless_calls", J::Obj((0..8).map(|i| (ENTRY_NAMES[i].to_string(), J::u(s.calls[i]))).collect())));
            cov.push(("other_library_calls_between_parses", J::u(s.other_calls)));
            cov.push(("calls_from_char_vector", J::u(s.calls_chars)));
            cov.push(("calls_with_the_enum_format_held_by_value", J::u(s.calls_temp_format)));
            cov.push(("calls_on_fresh_lexical_instance", J::u(s.calls_lex_fresh)));
            cov.push(("simulator_alone_evaluations", J::u(s.alone_evals)));
            cov.push(("observations_cross_checked", J::u(s.observations)));
            cov.push(("alone_outcomes", J::obj(vec![("task", J::u(s.outcome_kinds[0])), ("sentence", J::u(s.outcome_kinds[1])), ("term", J::u(s.outcome_kinds[2])), ("err_or_panic", J::u(s.outcome_kinds[3]))])));
            cov.push(("inputs_skipped_because_they_panic_alone", J::u(s.skipped_panicking)));
            cov.push((
                "states_reached",
                J::obj(vec![
                    ("measure", J::s("cells hit of the 32 x 4 grid (slots still filled when the session state was re-targeted: budget,term,punctuation,stamp,truth as bits 0-4) x (class of the next request alone: task, sentence, term, err)")),
                    ("count", J::u(cells)),
                    ("rows", J::Obj(grid)),
                ]),
            ));
            cov.push((
                "concurrent_caller_runs",
                J::obj(vec![
                    ("runs", J::u(s.coop_runs)),
                    ("caller_threads", J::u(s.coop_threads)),
                    ("operations", J::u(s.coop_ops)),
                    ("yield_points_passed", J::u(s.coop_yields)),
                    ("thread_switches_decided_by_the_scheduler", J::u(s.coop_switches)),
                    ("stalled_runs_without_verdict", J::u(s.coop_stalled)),
                    ("yield_sites", J::obj(vec![("enum_term_parser", J::u(s.coop_sites[1])), ("lexical_term_parser", J::u(s.coop_sites[2])), ("lexical_fold", J::u(s.coop_sites[3])), ("term_hash", J::u(s.coop_sites[4])), ("term_eq", J::u(s.coop_sites[5]))])),
                ]),
            ));
            cov.push(("fresh_thread_oracle_queries", J::u(s.fresh_thread_queries)));
            cov.push(("restart_oracle_process_histories", J::u(agg.restart_segments)));
            cov.push(("restart_oracle_runs_in_histories", J::u(agg.restart_runs)));
            cov.push(("restart_oracle_queries", J::u(agg.restart_queries)));
            cov.push(("restart_oracle_disagreements", J::u(agg.restart_disagreements)));
            cov.push((
                "components",
                J::obj(vec![
                    ("real", J::strs(["enum parser: parse, parse_chars, parse_multi (ParseState reuse), Truth/Budget/Stamp/Punctuation entry points", "enum formatter (request generation)", "lexical parser on the lazy_static instances and on fresh instances", "lexical fold", "fresh OS processes for the restart oracle"])),
                    ("stub", if HOOKED { J::strs(["std RandomState inside TermSetType -> SimBuildHasher (irrelevant to this oracle: values are compared through the abstraction)"]) } else { J::strs(Vec::<String>::new()) }),
                ]),
            ));
            assumptions.push("error texts are not compared; an input that panics when parsed alone is C04/C05 business and gives no verdict here".into());
            assumptions.push("threads: the native runs are single-threaded by construction (the interleaving is decided by the seeded scheduler); real threads racing on the lazy_static initialisation run only under Miri's seeded scheduler in the thorough tier".into());
        }
    }
    if let Some(path) = &opts.extra_json {
        // results of components run by the driver script (Miri), merged verbatim
        if let Ok(text) = std::fs::read_to_string(path) {
            if let Ok(J::Obj(pairs)) = parse_json(&text) {
                for (_, v) in &pairs {
                    extra_violations += v.get("violations").and_then(|x| x.as_u64()).unwrap_or(0) as i128;
                }
                cov.push(("extra_components", J::Obj(pairs)));
            }
        }
    }
    cov.push(("known_findings_matched", J::strs(known_lines.iter().cloned())));
    if !replay_path.is_empty() {
        cov.push(("replay", J::s(replay_path)));
    }
    cov.push(("log_digest_xor", J::s(format!("{:#018x}", agg.log_xor))));
    cov.push(("workers", J::u(opts.workers as u64)));
    Ok(J::obj(vec![
        ("property_id", J::s(prop)),
        ("tier", J::s(opts.tier.clone())),
        ("seed", J::Int(opts.seed as i128)),
        ("level", J::s("exploration")),
        ("coverage", J::Obj(cov.into_iter().map(|(k, v)| (k.to_string(), v)).collect())),
        ("assumptions", J::strs(assumptions)),
        ("wall_s", J::Num((wall * 1000.0).round() / 1000.0)),
        ("violations", J::Int(violations + extra_violations)),
    ]))
}

// ---------------------------------------------------------------------------------------------
// replay

pub fn cmd_replay(args: &[String]) -> u8 {
    let Some(path) = args.first() else {
        eprintln!("usage: narsim replay FILE");
        return 2;
    };
    let text = match std::fs::read_to_string(path) {
        Ok(t) => t,
        Err(e) => {
            eprintln!("narsim: {path}: {e}");
            return 2;
        }
    };
    let j = match parse_json(&text) {
        Ok(j) => j,
        Err(e) => {
            eprintln!("narsim: {path}: {e}");
            return 2;
        }
    };
    let prop = j.get("property").and_then(|v| v.as_str()).unwrap_or("");
    let kind_s = j.get("kind").and_then(|v| v.as_str()).unwrap_or("").to_string();
    let Some(kind) = SimKind::of_prop(prop) else {
        eprintln!("narsim: {path}: unknown property {prop:?}");
        return 2;
    };
    let prop = prop_static(prop);
    if let Some(h) = j.get("history_runs").and_then(|v| v.as_arr()) {
        let runs: Vec<u64> = h.iter().filter_map(|x| x.as_u64()).collect();
        let seed = j.get("master_seed").and_then(|v| v.as_u64()).unwrap_or(1);
        println!("  replaying thread history: runs {runs:?} under VERIF_SEED={seed} on this fresh thread");
        return match run_history(kind, prop, seed, &runs) {
            Some(v) => {
                println!("replayed {path}: {} {}: {}", v.prop, v.kind, v.message);
                println!("VIOLATION property={prop} replay={path}");
                1
            }
            None => {
                println!("replayed {path}: no violation of {prop} on this tree (hooked_build={HOOKED})");
                0
            }
        };
    }
    if let Some(seg) = j.get("segment") {
        let g = |k: &str| seg.get(k).and_then(|v| v.as_u64()).unwrap_or(0);
        println!("  replaying process history: runs {}..={} under VERIF_SEED={} in this fresh process", g("from"), g("to"), g("seed"));
        return match run_segment(prop, g("seed"), g("from"), g("to"), g("per_run").max(1) as usize, true) {
            Ok((_, _, Some((i, msg)))) => {
                println!("replayed {path}: after run {i}: {msg}");
                println!("VIOLATION property={prop} replay={path}");
                1
            }
            Ok(_) => {
                println!("replayed {path}: no violation of {prop} on this tree (hooked_build={HOOKED})");
                0
            }
            Err(e) => {
                eprintln!("narsim: {e}");
                2
            }
        };
    }
    let Some(choices) = j.get("choices").and_then(|v| v.as_arr()) else {
        eprintln!("narsim: {path}: no choices");
        return 2;
    };
    let data: Vec<u32> = choices.iter().filter_map(|c| c.as_u64()).map(|c| c as u32).collect();
    // the simulator is deterministic; a tree under test that draws OS randomness or depends on
    // addresses may need more than one attempt
    let mut out = run_fresh_thread(kind, &data, true);
    for _ in 0..2 {
        if out.violations.iter().any(|v| v.prop == prop) {
            break;
        }
        out = run_fresh_thread(kind, &data, true);
    }
    for l in &out.log.lines {
        println!("  {l}");
    }
    let same = out.violations.iter().find(|v| v.prop == prop && v.kind == kind_s);
    let any = out.violations.iter().find(|v| v.prop == prop);
    match same.or(any) {
        Some(v) => {
            println!("replayed {path}: {} {}: {}", v.prop, v.kind, v.message);
            println!("VIOLATION property={prop} replay={path}");
            1
        }
        None => {
            println!("replayed {path}: no violation of {prop} on this tree (hooked_build={HOOKED})");
            0
        }
    }
}
