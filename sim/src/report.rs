//! Violations, the event log of a run, and a tiny JSON writer/reader (no serde: the crate has
//! no dependency besides the library under test).

use crate::prng::Digest;

#[derive(Clone, Debug)]
pub struct Violation {
    pub prop: &'static str,
    /// violation class: stable across minimisation (the minimiser keeps a change only if the
    /// same (property, kind) still fires)
    pub kind: String,
    pub message: String,
}

/// Event log of one run. The digest covers every decision outcome and is always maintained
/// (it is what the determinism self-test compares); text lines are only built when `verbose`.
/// Logging never draws from the PRNG and never reads a clock.
pub struct Log {
    pub verbose: bool,
    pub lines: Vec<String>,
    pub d: Digest,
}

impl Log {
    pub fn new(verbose: bool) -> Self {
        Self {
            verbose,
            lines: vec![],
            d: Digest::new(),
        }
    }
    #[inline]
    pub fn line(&mut self, f: impl FnOnce() -> String) {
        if self.verbose {
            self.lines.push(f());
        }
    }
}

// ---------------------------------------------------------------------------------------------
// JSON

pub fn json_str(s: &str) -> String {
    let mut o = String::with_capacity(s.len() + 2);
    o.push('"');
    for c in s.chars() {
        match c {
            '"' => o.push_str("\\\""),
            '\\' => o.push_str("\\\\"),
            '\n' => o.push_str("\\n"),
            '\r' => o.push_str("\\r"),
            '\t' => o.push_str("\\t"),
            c if (c as u32) < 0x20 => o.push_str(&format!("\\u{:04x}", c as u32)),
            c => o.push(c),
        }
    }
    o.push('"');
    o
}

#[derive(Clone, Debug)]
pub enum J {
    Null,
    Bool(bool),
    Int(i128),
    Num(f64),
    Str(String),
    Arr(Vec<J>),
    Obj(Vec<(String, J)>),
}

impl J {
    pub fn obj(pairs: Vec<(&str, J)>) -> J {
        J::Obj(pairs.into_iter().map(|(k, v)| (k.to_string(), v)).collect())
    }
    pub fn s(s: impl Into<String>) -> J {
        J::Str(s.into())
    }
    pub fn u(v: u64) -> J {
        J::Int(v as i128)
    }
    pub fn strs<I: IntoIterator<Item = S>, S: Into<String>>(it: I) -> J {
        J::Arr(it.into_iter().map(|s| J::Str(s.into())).collect())
    }
    pub fn write(&self, out: &mut String, indent: usize) {
        let pad = |n: usize| " ".repeat(n);
        match self {
            J::Null => out.push_str("null"),
            J::Bool(b) => out.push_str(if *b { "true" } else { "false" }),
            J::Int(i) => out.push_str(&i.to_string()),
            J::Num(f) => {
                if f.is_finite() {
                    out.push_str(&format!("{f}"))
                } else {
                    out.push_str("null")
                }
            }
            J::Str(s) => out.push_str(&json_str(s)),
            J::Arr(v) => {
                let scalar = v.iter().all(|x| matches!(x, J::Int(_) | J::Num(_) | J::Bool(_)));
                if v.is_empty() {
                    out.push_str("[]");
                } else if scalar {
                    out.push('[');
                    for (i, x) in v.iter().enumerate() {
                        if i > 0 {
                            out.push_str(", ");
                        }
                        x.write(out, 0);
                    }
                    out.push(']');
                } else {
                    out.push_str("[\n");
                    for (i, x) in v.iter().enumerate() {
                        out.push_str(&pad(indent + 1));
                        x.write(out, indent + 1);
                        if i + 1 < v.len() {
                            out.push(',');
                        }
                        out.push('\n');
                    }
                    out.push_str(&pad(indent));
                    out.push(']');
                }
            }
            J::Obj(v) => {
                if v.is_empty() {
                    out.push_str("{}");
                    return;
                }
                out.push_str("{\n");
                for (i, (k, x)) in v.iter().enumerate() {
                    out.push_str(&pad(indent + 1));
                    out.push_str(&json_str(k));
                    out.push_str(": ");
                    x.write(out, indent + 1);
                    if i + 1 < v.len() {
                        out.push(',');
                    }
                    out.push('\n');
                }
                out.push_str(&pad(indent));
                out.push('}');
            }
        }
    }
    pub fn to_string_pretty(&self) -> String {
        let mut s = String::new();
        self.write(&mut s, 0);
        s.push('\n');
        s
    }
    pub fn get(&self, key: &str) -> Option<&J> {
        match self {
            J::Obj(v) => v.iter().find(|(k, _)| k == key).map(|(_, v)| v),
            _ => None,
        }
    }
    pub fn as_str(&self) -> Option<&str> {
        match self {
            J::Str(s) => Some(s),
            _ => None,
        }
    }
    pub fn as_u64(&self) -> Option<u64> {
        match self {
            J::Int(i) if *i >= 0 => Some(*i as u64),
            _ => None,
        }
    }
    pub fn as_arr(&self) -> Option<&Vec<J>> {
        match self {
            J::Arr(v) => Some(v),
            _ => None,
        }
    }
}

/// Minimal JSON parser (enough for replay files and known_findings.json)
pub fn parse_json(s: &str) -> Result<J, String> {
    let b: Vec<char> = s.chars().collect();
    let mut p = 0usize;
    let v = parse_value(&b, &mut p)?;
    skip_ws(&b, &mut p);
    if p != b.len() {
        return Err(format!("trailing characters at {p}"));
    }
    Ok(v)
}
fn skip_ws(b: &[char], p: &mut usize) {
    while *p < b.len() && b[*p].is_whitespace() {
        *p += 1;
    }
}
fn parse_value(b: &[char], p: &mut usize) -> Result<J, String> {
    skip_ws(b, p);
    if *p >= b.len() {
        return Err("unexpected end".into());
    }
    match b[*p] {
        '{' => {
            *p += 1;
            let mut v = vec![];
            loop {
                skip_ws(b, p);
                if *p < b.len() && b[*p] == '}' {
                    *p += 1;
                    break;
                }
                let k = match parse_value(b, p)? {
                    J::Str(s) => s,
                    _ => return Err("object key must be a string".into()),
                };
                skip_ws(b, p);
                if *p >= b.len() || b[*p] != ':' {
                    return Err(format!("expected ':' at {p}"));
                }
                *p += 1;
                let x = parse_value(b, p)?;
                v.push((k, x));
                skip_ws(b, p);
                if *p < b.len() && b[*p] == ',' {
                    *p += 1;
                }
            }
            Ok(J::Obj(v))
        }
        '[' => {
            *p += 1;
            let mut v = vec![];
            loop {
                skip_ws(b, p);
                if *p < b.len() && b[*p] == ']' {
                    *p += 1;
                    break;
                }
                v.push(parse_value(b, p)?);
                skip_ws(b, p);
                if *p < b.len() && b[*p] == ',' {
                    *p += 1;
                }
            }
            Ok(J::Arr(v))
        }
        '"' => {
            *p += 1;
            let mut s = String::new();
            while *p < b.len() && b[*p] != '"' {
                if b[*p] == '\\' {
                    *p += 1;
                    if *p >= b.len() {
                        return Err("bad escape".into());
                    }
                    match b[*p] {
                        'n' => s.push('\n'),
                        'r' => s.push('\r'),
                        't' => s.push('\t'),
                        'b' => s.push('\u{8}'),
                        'f' => s.push('\u{c}'),
                        'u' => {
                            let hex: String = b[*p + 1..(*p + 5).min(b.len())].iter().collect();
                            let mut cp = u32::from_str_radix(&hex, 16).map_err(|e| e.to_string())?;
                            *p += 4;
                            if (0xD800..0xDC00).contains(&cp) && *p + 6 < b.len() && b[*p + 1] == '\\' && b[*p + 2] == 'u' {
                                let hex2: String = b[*p + 3..*p + 7].iter().collect();
                                let lo = u32::from_str_radix(&hex2, 16).map_err(|e| e.to_string())?;
                                cp = 0x10000 + ((cp - 0xD800) << 10) + (lo - 0xDC00);
                                *p += 6;
                            }
                            s.push(char::from_u32(cp).unwrap_or('\u{fffd}'));
                        }
                        c => s.push(c),
                    }
                } else {
                    s.push(b[*p]);
                }
                *p += 1;
            }
            if *p >= b.len() {
                return Err("unterminated string".into());
            }
            *p += 1;
            Ok(J::Str(s))
        }
        't' if b[*p..].starts_with(&['t', 'r', 'u', 'e']) => {
            *p += 4;
            Ok(J::Bool(true))
        }
        'f' if b[*p..].starts_with(&['f', 'a', 'l', 's', 'e']) => {
            *p += 5;
            Ok(J::Bool(false))
        }
        'n' if b[*p..].starts_with(&['n', 'u', 'l', 'l']) => {
            *p += 4;
            Ok(J::Null)
        }
        _ => {
            let start = *p;
            while *p < b.len() && (b[*p].is_ascii_digit() || "+-.eE".contains(b[*p])) {
                *p += 1;
            }
            let t: String = b[start..*p].iter().collect();
            if t.is_empty() {
                return Err(format!("unexpected character {:?} at {start}", b[start]));
            }
            if let Ok(i) = t.parse::<i128>() {
                Ok(J::Int(i))
            } else {
                t.parse::<f64>().map(J::Num).map_err(|e| e.to_string())
            }
        }
    }
}
