#!/bin/bash
# Determinism self-test: every run's event-log digest must be a pure function of (VERIF_SEED, run index),
# independent of process, worker count and of what ran before on the same worker thread.
# usage: selftest/determinism.sh [runs-per-config (default 2048)]
set -u
HERE="$(cd "$(dirname "${BASH_SOURCE[0]}")/.." && pwd)"
BIN="$HERE/sim/target/release/narsim"
RUNS="${1:-2048}"
export CARGO_NET_OFFLINE=true
(cd "$HERE/sim" && RUSTFLAGS="--cfg narsese_verif" cargo build --release --offline >/dev/null 2>&1) || { echo "build failed"; exit 2; }
TMP="$(mktemp -d)"
trap 'rm -rf "$TMP"' EXIT
fail=0
for prop in C06 C08; do
  for seed in 1 2 77 123456789; do
    ref=""
    for cfg in "1 a" "1 b" "16 a" "16 b" "5 a"; do
      set -- $cfg
      out="$TMP/$prop-$seed-$1-$2.txt"
      "$BIN" run --prop $prop --seed $seed --runs "$RUNS" --workers "$1" --dump-digests --no-evidence --replay-dir "$TMP/replays" | grep '^DIGEST' > "$out"
      if [ -z "$ref" ]; then ref="$out"; else
        if ! cmp -s "$ref" "$out"; then echo "NONDETERMINISM: $prop seed=$seed workers=$1 differs from reference"; diff "$ref" "$out" | head -5; fail=1; fi
      fi
    done
    echo "ok $prop seed=$seed: $(wc -l < "$ref") digest lines identical across 5 process/worker configurations"
  done
done
exit $fail
