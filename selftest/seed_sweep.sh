#!/bin/bash
# No-false-alarm self-test: the quick tier of every check on the unchanged tree under N different master seeds.
# usage: selftest/seed_sweep.sh [N (default 20)]
HERE="$(cd "$(dirname "${BASH_SOURCE[0]}")/.." && pwd)"
N="${1:-20}"; TMP="$(mktemp -d)"; bad=0
for i in $(seq 1 "$N"); do
  seed=$((1000003 * i + 17))
  for p in C06 C07 C08; do
    VERIF_SEED=$seed "$HERE/check" $p --tier quick --evidence "$TMP/ev.json" --replay-dir "$TMP/replays" > "$TMP/out.txt" 2>&1; rc=$?
    if [ $rc -ne 0 ] || grep -q "^VIOLATION\|^KNOWN-FINDING\|^UNREPRODUCED" "$TMP/out.txt"; then echo "ALARM seed=$seed $p rc=$rc"; tail -5 "$TMP/out.txt"; bad=1; fi
  done
  echo "seed $seed: C06 C07 C08 clean"
done
rm -rf "$TMP"; exit $bad
