#!/bin/bash
# Sensitivity self-test: every patch in selftest/mutants/ (and seeded/*/patch.diff) must be caught by the
# quick tier of the check of the property it breaks, with a replay file that reproduces in a fresh process.
# The patch is applied to /repo (git apply) and undone straight afterwards (git checkout -- .).
# usage: selftest/sensitivity.sh [--tests] [--tier quick|thorough] [name-filter]
set -u
HERE="$(cd "$(dirname "${BASH_SOURCE[0]}")/.." && pwd)"
TESTS=0; TIER=quick; FILTER=""
while [ $# -gt 0 ]; do case "$1" in --tests) TESTS=1; shift;; --tier) TIER="$2"; shift 2;; *) FILTER="$1"; shift;; esac; done
if [ -n "$(git -C /repo status --porcelain --untracked-files=no)" ]; then echo "/repo has uncommitted changes; refusing"; exit 2; fi
restore() { git -C /repo checkout -- . ; }
trap restore EXIT
TMP="$(mktemp -d)"
pass=0; missed=0
list=()
for f in "$HERE"/selftest/mutants/*.diff; do list+=("$f"); done
for f in "$HERE"/seeded/*/patch.diff; do [ -f "$f" ] && list+=("$f"); done
for f in "${list[@]}"; do
  case "$f" in
    */seeded/*) name="$(basename "$(dirname "$f")")"; prop="$(python3 -c "import json,sys;print(json.load(open(sys.argv[1]))['property'])" "$(dirname "$f")/meta.json")";;
    *) name="$(basename "$f" .diff)"; prop="$(echo "${name%%-*}" | tr a-z A-Z)";;
  esac
  [ -n "$FILTER" ] && [[ "$name" != *"$FILTER"* ]] && continue
  # SENS_EXCLUDE: extended regex of names to leave out (e.g. the ones known to take 10-45 minutes)
  [ -n "${SENS_EXCLUDE:-}" ] && [[ "$name" =~ $SENS_EXCLUDE ]] && { echo "LEFT-OUT $name (SENS_EXCLUDE)"; continue; }
  if ! git -C /repo apply "$f" 2>"$TMP/apply.err"; then echo "SKIP $name: patch does not apply ($(head -1 "$TMP/apply.err"))"; continue; fi
  tests="-"
  if [ $TESTS -eq 1 ]; then
    if (cd /repo && CARGO_NET_OFFLINE=true cargo test --workspace --no-fail-fast --offline >"$TMP/tests.log" 2>&1); then tests="suite-passes"; else tests="SUITE-FAILS"; fi
  fi
  t0=$(date +%s.%N)
  timeout 2400 "$HERE/check" "$prop" --tier "$TIER" --evidence "$TMP/ev.json" --replay-dir "$TMP/replays" >"$TMP/out.txt" 2>&1
  rc=$?
  t1=$(date +%s.%N)
  line="$(grep '^VIOLATION' "$TMP/out.txt" | head -1)"
  kind="$(grep "^violation" "$TMP/out.txt" | head -1 | sed 's/.*(kind \([^)]*\)).*/\1/')"
  runidx="$(grep '^violation in run' "$TMP/out.txt" | head -1 | sed 's/violation in run \([0-9]*\).*/\1/')"
  if [ $rc -eq 1 ] && [[ "$line" == "VIOLATION property=$prop replay="* ]]; then
    rp="${line#*replay=}"
    "$HERE/check" "$prop" --replay "$rp" >"$TMP/replay.txt" 2>&1; rrc=$?
    if [ $rrc -eq 1 ] && grep -q "^VIOLATION property=$prop" "$TMP/replay.txt"; then
      printf "CAUGHT %-45s %s kind=%s first-failing-run=%s (%.1fs) replay-reproduces %s\n" "$name" "$prop" "$kind" "$runidx" "$(echo "$t1 - $t0" | bc)" "$tests"
      pass=$((pass+1))
    else
      echo "REPLAY-FAILED $name: replay exit $rrc"; missed=$((missed+1))
    fi
  else
    printf "MISSED %-45s %s (exit %s) %s\n" "$name" "$prop" "$rc" "$tests"; tail -3 "$TMP/out.txt"
    missed=$((missed+1))
  fi
  restore
done
rm -rf "$TMP"
echo "sensitivity: caught=$pass missed=$missed"
[ $missed -eq 0 ]
